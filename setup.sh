#!/bin/bash
# Build the overlay interpreter (offline): /venv's packages + z3/cvc5/crosshair
set -e
cd "$(dirname "$0")"
if [ ! -x .venv/bin/python ] || ! .venv/bin/python -c "import z3, numpy, emg3d" 2>/dev/null; then
  rm -rf .venv
  /venv/bin/python -m venv .venv
  SP=$(.venv/bin/python -c "import site; print(site.getsitepackages()[0])")
  printf '/venv/lib/python3.12/site-packages\n/repo\n' > "$SP/_overlay.pth"
  PIP_NO_INDEX=1 .venv/bin/pip install -q --no-index --find-links /opt/veriftools/wheels z3-solver cvc5 crosshair-tool >/dev/null
fi
.venv/bin/python -c "import z3, numpy, scipy, emg3d; print('setup ok: z3', z3.get_version_string())"
