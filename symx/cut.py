"""Cut-and-invert arrays for in-place elimination code (DESIGN §3.3).

Every store ``a[i] = expr`` cuts: a fresh variable t is stored instead of the
expression.  Because the code updates in place, ``expr`` is ``old - h`` or
``old * r_p`` (r_p the reciprocal variable of p); the defining equation is
inverted (``old := t + h`` resp. ``old := t * p``), which expresses the inputs
as low-degree polynomials of the final values.  Stores of other forms are kept
uncut (sound; merely larger terms).
"""
from fractions import Fraction

import numpy as np
import z3

from .core import Q, ctx


class CutArray:
    """1-D array of symbolic scalars with cut-at-store semantics."""

    def __init__(self, name, n):
        self.name = name
        self.cur = [Q.var(f"{name}[{k}]") for k in range(n)]
        self.inputs = list(self.cur)
        self.subst = []       # (var_term, replacement_term) creation order
        self.dtype = np.dtype(object)
        self.ncut = 0
        self.nuncut = 0

    def __len__(self):
        return len(self.cur)

    @property
    def size(self):
        return len(self.cur)

    def __getitem__(self, i):
        if isinstance(i, slice):
            raise TypeError("CutArray: slices not supported")
        return self.cur[i]

    def __setitem__(self, i, value):
        if isinstance(i, slice):
            raise TypeError("CutArray: slices not supported")
        old = self.cur[i]
        if not isinstance(value, Q):
            value = Q(value)
        if value.c is not None or old.c is not None or \
                not z3.is_const(old.t):
            self.cur[i] = value
            self.nuncut += 1
            return
        v = value.t
        if v.eq(old.t):
            return
        c = ctx()
        if z3.is_mul(v) and v.num_args() == 2 and v.arg(0).eq(old.t) and \
                v.arg(1).get_id() in c.recip_den:
            p = c.recip_den[v.arg(1).get_id()]
            t = c.fresh(f"{self.name}{i}c")
            self.subst.append((old.t, t*p))
            self.cur[i] = Q(t)
            self.ncut += 1
        elif z3.is_sub(v) and v.num_args() == 2 and v.arg(0).eq(old.t):
            t = c.fresh(f"{self.name}{i}c")
            self.subst.append((old.t, t+v.arg(1)))
            self.cur[i] = Q(t)
            self.ncut += 1
        else:
            self.cur[i] = value
            self.nuncut += 1


def invert(term, *arrays):
    """Express `term` (over input variables) in the final variables."""
    subs = []
    for a in arrays:
        subs.extend(a.subst)
    # substitutions must be applied in creation order; creation order is the
    # numeric suffix of the fresh variable inside the replacement, but we
    # only need: a replacement may mention variables cut later.  Applying all
    # substitutions repeatedly until fixpoint is order independent.
    for _ in range(len(subs)+1):
        new = z3.substitute(term, *subs) if subs else term
        if new.eq(term):
            return new
        term = new
    return term
