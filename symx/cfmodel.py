"""Nondeterministic model of ``concurrent.futures`` process pools (and of the
two tqdm entry points emg3d uses), for the shadow package.

The shadow loader redirects ``from concurrent.futures import ...`` and
``import tqdm`` of emg3d's modules here.  Without an installed scheduler the
model is a plain in-process, in-order executor (so harnesses that do not care
behave as before).  With a scheduler (harness C11) it models the documented
contract of a *process* pool:

* arguments are shipped to the worker by pickling  -> the task works on a
  private deep copy; nothing it mutates is visible to the parent;
* results (or the exception) are shipped back by pickling -> deep copy;
* tasks complete in an arbitrary order chosen by the scheduler (symbolic
  completion times; every comparison forks the path explorer);
* ``Executor.map`` yields results in submission order, ``as_completed`` in
  completion order, ``Future.add_done_callback`` fires in completion order,
  ``wait``/``shutdown``/``__exit__`` wait for everything.
"""
import copy

SCHED = [None]       # active scheduler (set by the harness)
LOG = []             # (event, detail) trace for evidence / debugging


class SeqScheduler:
    """Default: in-order, shared objects (no process boundary)."""

    def order(self, n):
        return list(range(n))

    def ship(self, obj):
        return obj


def _sched():
    return SCHED[0] or SeqScheduler()


class Future:
    def __init__(self, pool, idx, fn, args, kwargs):
        self._pool, self._idx = pool, idx
        self._fn, self._args, self._kwargs = fn, args, kwargs
        self._done = False
        self._res = self._exc = None
        self._rank = None
        self._cbs = []

    def _run(self, rank):
        try:
            self._res = _sched().ship(self._fn(*self._args, **self._kwargs))
        except Exception as e:      # noqa  (BaseException steer the explorer)
            self._exc = e
        self._done, self._rank = True, rank
        for cb in self._cbs:
            cb(self)

    def result(self, timeout=None):
        self._pool._settle()
        if self._exc is not None:
            raise self._exc
        return self._res

    def exception(self, timeout=None):
        self._pool._settle()
        return self._exc

    def done(self):
        self._pool._settle()
        return True

    def running(self):
        return False

    def cancelled(self):
        return False

    def cancel(self):
        return False

    def add_done_callback(self, fn):
        if self._done:
            fn(self)
        else:
            self._cbs.append(fn)


class ProcessPoolExecutor:
    def __init__(self, max_workers=None, *a, **k):
        self.max_workers = max_workers
        self._pending = []
        self._nrank = 0
        self._all = []
        LOG.append(('pool', max_workers))

    def __enter__(self):
        return self

    def __exit__(self, *exc):
        self.shutdown(wait=True)
        return False

    def submit(self, fn, /, *args, **kwargs):
        s = _sched()
        f = Future(self, len(self._all), fn, s.ship(args), s.ship(kwargs))
        self._all.append(f)
        self._pending.append(f)
        return f

    def _settle(self):
        """Everything submitted so far completes, in a scheduler-chosen
        order (the parent is about to observe a result)."""
        if not self._pending:
            return
        pend, self._pending = self._pending, []
        for k in _sched().order(len(pend)):
            pend[k]._run(self._nrank)
            self._nrank += 1
        LOG.append(('settled', [f._idx for f in sorted(
            pend, key=lambda f: f._rank)]))

    def map(self, fn, *iterables, timeout=None, chunksize=1):
        fs = [self.submit(fn, *args) for args in zip(*iterables)]

        def gen():
            for f in fs:
                yield f.result()
        return gen()

    def shutdown(self, wait=True, cancel_futures=False):
        self._settle()


ThreadPoolExecutor = ProcessPoolExecutor     # same observable contract here


def as_completed(fs, timeout=None):
    fs = list(fs)
    for f in fs:
        f._pool._settle()
    return iter(sorted(fs, key=lambda f: f._rank))


FIRST_COMPLETED, FIRST_EXCEPTION, ALL_COMPLETED = \
    'FIRST_COMPLETED', 'FIRST_EXCEPTION', 'ALL_COMPLETED'


def wait(fs, timeout=None, return_when=ALL_COMPLETED):
    fs = list(fs)
    for f in fs:
        f._pool._settle()
    import collections
    return collections.namedtuple('DoneAndNotDoneFutures', 'done not_done')(
        set(fs), set())


# ---------------------------------------------------------------- tqdm model
class _Auto:
    @staticmethod
    def tqdm(iterable=None, *a, **k):
        LOG.append(('tqdm', k.get('total')))
        return iter(iterable)


class _Concurrent:
    @staticmethod
    def process_map(fn, *iterables, **kw):
        max_workers = kw.pop('max_workers', None)
        chunksize = kw.pop('chunksize', 1)
        with ProcessPoolExecutor(max_workers=max_workers) as ex:
            return list(_Auto.tqdm(ex.map(fn, *iterables,
                                          chunksize=chunksize), **kw))

    thread_map = process_map


class _Contrib:
    concurrent = _Concurrent


class TqdmModel:
    """Stands for the ``tqdm`` module: tqdm.auto.tqdm and
    tqdm.contrib.concurrent.process_map as documented."""
    auto = _Auto
    contrib = _Contrib
    tqdm = _Auto.tqdm


def deep_ship(obj):
    return copy.deepcopy(obj)

import sys as _sys                                   # noqa: E402
futures = _sys.modules[__name__]     # `import concurrent.futures` binds this
