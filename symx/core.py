"""symx core: solver context, symbolic scalars, path exploration.

The real emg3d source (shadow package, see shadow.py) is executed on these
scalars.  Every arithmetic operation builds a z3 term; every comparison that
reaches a Python ``if`` becomes a decision of the path explorer.  Nothing here
knows anything about emg3d.
"""
import os
import time
import itertools
from fractions import Fraction

import numpy as np
import z3


class Inconclusive(Exception):
    """Solver said unknown / budget exhausted: never reported as held."""


class Infeasible(BaseException):
    """Current path condition is unsatisfiable (path is dropped)."""


class PathAbort(BaseException):
    """Harness-requested abort of the current path (assume(False))."""


# --------------------------------------------------------------------------
# Context
# --------------------------------------------------------------------------
class Ctx:
    """Solver context: side conditions, reciprocals, path condition, stats."""

    def __init__(self, timeout_ms=60000, name='ctx'):
        self.name = name
        # (a floor for all per-query caps, so that a loaded machine does not
        # turn a 10 s query into an inconclusive run)
        self.timeout_ms = max(int(timeout_ms), int(os.environ.get(
            'SYMX_MIN_TIMEOUT_MS', '0')))
        self.side = []          # global side conditions (assumptions)
        self.side_notes = []    # human readable list of assumptions
        self.recips = {}        # ast-id of monic denominator -> (mon, var)
        self.recip_den = {}     # ast-id of reciprocal var -> monic denom.
        self.pc = []            # path condition of the current run
        self.prefix = []        # decisions to replay
        self.trace = []         # decisions taken in the current run
        self.pending = []       # prefixes still to explore
        self.nfresh = itertools.count()
        self.stats = dict(queries=0, sat=0, unsat=0, unknown=0,
                          solver_s=0.0, decisions=0, forks=0)
        self.query_log = []     # (label, verdict, seconds)
        self._feas = None       # incremental solver for feasibility
        self._feas_n = 0
        self.keep = []          # keep ASTs alive (ids are used as keys)
        self.memo = {}          # ast-id of decided condition -> (val, ast)
        self.fp_abstract = False  # abstract Float64 products (CEGAR)
        self.fp_products = {}     # (op, id a, id b) -> fresh result term
        self.fp_refine = []       # exact definitions of abstract products
        self.refine_timeout_ms = 60000
        self.str_free = {}        # id of string var -> set of chars it lacks
        # list -> keep SMT-LIB2 text of a few discharged queries (second
        # opinion by cvc5, see harness.common); enabled by SYMX_SAMPLE
        self.sample_smt2 = [] if os.environ.get('SYMX_SAMPLE') else None
        self.uf = {}

    # -- variables --------------------------------------------------------
    def fresh(self, name, sort='real'):
        n = f"{name}!{next(self.nfresh)}"
        if sort == 'real':
            return z3.Real(n)
        if sort == 'int':
            return z3.Int(n)
        if sort == 'bool':
            return z3.Bool(n)
        if sort == 'f64':
            return z3.FP(n, z3.Float64())
        raise ValueError(sort)

    def assume(self, cond, note=None):
        """Global assumption (part of the claim)."""
        cond = _bt(cond)
        self.side.append(cond)
        if note:
            self.side_notes.append(note)
        self._feas = None

    # -- reciprocal variables ---------------------------------------------
    def recip(self, y):
        """Return a term for 1/y; y a z3 real term (non-constant)."""
        e = z3.simplify(y, som=True)
        if z3.is_rational_value(e):
            f = e.as_fraction()
            return z3.RealVal(str(1/Fraction(f.numerator, f.denominator)))
        coef = _leading_coef(e)
        if coef != 1:
            mon = z3.simplify(e/z3.RealVal(str(coef)), som=True)
        else:
            mon = e
        key = mon.get_id()
        hit = self.recips.get(key)
        if hit is None:
            var = self.fresh('r')
            self.recips[key] = (mon, var)
            self.recip_den[var.get_id()] = mon
            self.keep.append(mon)
            self.keep.append(var)
            self.side.append(mon*var == 1)
            self._feas = None
        else:
            var = hit[1]
        if coef != 1:
            return var*z3.RealVal(str(1/coef))
        return var

    # -- queries ----------------------------------------------------------
    def solver(self, extra=(), use_pc=True, timeout_ms=None, tactic=None):
        if tactic:
            s = z3.Tactic(tactic).solver()
        else:
            s = z3.Solver()
        s.set('timeout', int(timeout_ms or self.timeout_ms))
        for c in self.side:
            s.add(c)
        if use_pc:
            for c in self.pc:
                s.add(c)
        for c in extra:
            s.add(c)
        return s

    def check(self, *extra, label='', use_pc=True, timeout_ms=None,
              tactic=None):
        """Return ('sat'|'unsat'|'unknown', model-or-None)."""
        s = self.solver(extra, use_pc, timeout_ms, tactic)
        t0 = time.time()
        r = str(s.check())
        dt = time.time()-t0
        self.stats['queries'] += 1
        self.stats[r] += 1
        self.stats['solver_s'] += dt
        self.query_log.append((label, r, round(dt, 4)))
        if self.sample_smt2 is not None and len(self.sample_smt2) < 3 and \
                r == 'unsat' and label and not label.startswith('twin'):
            try:
                self.sample_smt2.append((label, s.to_smt2()))
            except Exception:    # noqa
                pass
        m = s.model() if r == 'sat' else None
        return r, m

    def valid(self, prop, label='', refine=True, **kw):
        """Is prop valid under side+pc?  Returns (verdict, model).

        verdict: 'held' (negation unsat), 'cex' (negation sat), 'unknown'.
        """
        r, m = self.check(z3.Not(_bt(prop)), label=label, **kw)
        if r == 'sat' and self.fp_refine and refine:
            # counterexample of the abstraction.  (1) cheap refinement: fix
            # the leaf doubles of all abstracted products to the model's
            # values; the exact IEEE-754 definitions then evaluate by
            # constant propagation.
            leaves = {}
            for (op, *ids), res in self.fp_products.items():
                pass
            for d in self.fp_refine:
                for t in _fp_leaves(d.arg(1)):
                    leaves[t.get_id()] = t
            fix = []
            for t in leaves.values():
                fix.append(t == m.eval(t, model_completion=True))
            r1, m1 = self.check(z3.Not(_bt(prop)), *self.fp_refine, *fix,
                                label=label+' (refined: model point)', **kw)
            if r1 == 'sat':
                return 'cex', m1
            # (2) full exact query (may be slow)
            kw2 = dict(kw)
            kw2.setdefault('timeout_ms', self.refine_timeout_ms)
            r, m = self.check(z3.Not(_bt(prop)), *self.fp_refine,
                              label=label+' (refined: exact)', **kw2)
        return {'unsat': 'held', 'sat': 'cex', 'unknown': 'unknown'}[r], m

    # -- path exploration -------------------------------------------------
    def _feasible(self, cond):
        if self._feas is None or self._feas_n > len(self.pc):
            self._feas = z3.Solver()
            self._feas.set('timeout', int(self.timeout_ms))
            for c in self.side:
                self._feas.add(c)
            self._feas_n = 0
        while self._feas_n < len(self.pc):
            self._feas.add(self.pc[self._feas_n])
            self._feas_n += 1
        t0 = time.time()
        self._feas.push()
        self._feas.add(cond)
        r = str(self._feas.check())
        self._feas.pop()
        dt = time.time()-t0
        self.stats['queries'] += 1
        self.stats[r] += 1
        self.stats['solver_s'] += dt
        return r != 'unsat'   # unknown counts as feasible (over-approx.)

    def decide(self, cond):
        """Decide a symbolic condition: replay prefix or fork."""
        c = z3.simplify(cond)
        if z3.is_true(c):
            return True
        if z3.is_false(c):
            return False
        cid = c.get_id()
        hit = self.memo.get(cid)
        if hit is not None:
            return hit[0]
        i = len(self.trace)
        self.stats['decisions'] += 1
        if i < len(self.prefix):
            val = self.prefix[i]
        else:
            can_t = self._feasible(c)
            can_f = self._feasible(z3.Not(c))
            if can_t and can_f:
                self.pending.append(self.trace + [False])
                self.stats['forks'] += 1
                val = True
            elif can_t:
                val = True
            elif can_f:
                val = False
            else:
                raise Infeasible()
        self.trace.append(val)
        self.pc.append(c if val else z3.Not(c))
        self.memo[cid] = (val, c)     # (keeps c alive: ids are stable)
        return val

    def path_assume(self, cond):
        """Assumption local to this path (placed before the code it guards)."""
        c = z3.simplify(_bt(cond))
        if z3.is_true(c):
            return
        if z3.is_false(c) or not self._feasible(c):
            raise PathAbort()
        self.pc.append(c)

    def explore(self, fn, budget_s=None, max_paths=None):
        """Run fn() once per feasible path. Yields (result, pc, trace).

        fn is re-executed from scratch with a decision prefix; exploration is
        exhaustive iff the generator finishes without raising Inconclusive.
        """
        t0 = time.time()
        self.pending = [[]]
        npaths = 0
        while self.pending:
            if budget_s is not None and time.time()-t0 > budget_s:
                raise Inconclusive(
                    f"path budget {budget_s}s exhausted with "
                    f"{len(self.pending)} prefixes pending")
            if max_paths is not None and npaths >= max_paths:
                raise Inconclusive(f"max_paths {max_paths} reached")
            self.prefix = self.pending.pop()
            self.trace = []
            self.pc = []
            self.memo = {}
            self._feas = None
            try:
                res = fn()
            except (Infeasible, PathAbort):
                continue
            npaths += 1
            yield res, list(self.pc), list(self.trace)
        self.pc = []
        self.trace = []
        self.prefix = []
        self._feas = None

    # -- uninterpreted functions -----------------------------------------
    def ufun(self, name, arity=1):
        f = self.uf.get(name)
        if f is None:
            f = z3.Function(name, *([z3.RealSort()]*(arity+1)))
            self.uf[name] = f
        return f


_CTX = [None]


def ctx():
    c = _CTX[0]
    if c is None:
        raise RuntimeError("no active symx context")
    return c


def set_ctx(c):
    _CTX[0] = c
    return c


def _fp_leaves(term):
    """Uninterpreted FP constants below a term."""
    out, seen, stack = [], set(), [term]
    while stack:
        t = stack.pop()
        i = t.get_id()
        if i in seen:
            continue
        seen.add(i)
        if z3.is_const(t):
            if t.decl().kind() == z3.Z3_OP_UNINTERPRETED:
                out.append(t)
        else:
            stack.extend(t.children())
    return out


def _leading_coef(e):
    """Numeral coefficient of the first monomial of a som-normalised term."""
    def coef_of(m):
        if z3.is_rational_value(m):
            f = m.as_fraction()
            return Fraction(f.numerator, f.denominator)
        if z3.is_mul(m) and z3.is_rational_value(m.arg(0)):
            f = m.arg(0).as_fraction()
            return Fraction(f.numerator, f.denominator)
        return Fraction(1)
    if z3.is_add(e):
        # skip a constant summand if there is one: use first non-constant
        for k in range(e.num_args()):
            a = e.arg(k)
            if not z3.is_rational_value(a):
                return coef_of(a)
    return coef_of(e)


# --------------------------------------------------------------------------
# Scalars
# --------------------------------------------------------------------------
def _frac(x):
    """Exact Fraction of a concrete python/numpy real number, else None."""
    if isinstance(x, Fraction):
        return x
    if isinstance(x, (bool, np.bool_)):
        return Fraction(int(x))
    if isinstance(x, (int, np.integer)):
        return Fraction(int(x))
    if isinstance(x, (float, np.floating)):
        return Fraction(float(x))   # exact binary value
    if isinstance(x, (complex, np.complexfloating)):
        if x.imag == 0:
            return Fraction(float(x.real))
        raise TypeError("complex constant in real symbolic arithmetic: %r"
                        % (x,))
    return None


def _rv(fr):
    return z3.RealVal(str(fr))


class NaNQ:
    """Not-a-number: absorbs every arithmetic operation (missing data)."""
    __slots__ = ()

    def _same(self, *a, **k): return self
    __add__ = __radd__ = __sub__ = __rsub__ = __mul__ = __rmul__ = _same
    __truediv__ = __rtruediv__ = __pow__ = __rpow__ = __neg__ = _same
    __abs__ = __pos__ = conjugate = conj = sqrt = exp = log = log10 = _same
    real = property(_same)
    imag = property(_same)

    def abs2(self): return self
    def _false(self, o): return False
    __lt__ = __le__ = __gt__ = __ge__ = __eq__ = _false
    def __ne__(self, o): return True
    __hash__ = object.__hash__
    def __bool__(self): return True
    def isnan_(self): return True
    def isfinite_(self): return False
    def __float__(self): return float('nan')
    def __complex__(self): return complex('nan')
    def __repr__(self): return 'NaNQ'
    def __format__(self, spec): return 'nan'


NAN = NaNQ()


def _is_nan_const(o):
    if isinstance(o, (float, np.floating)):
        return o != o
    if isinstance(o, (complex, np.complexfloating)):
        return o.real != o.real or o.imag != o.imag
    return False


class Q:
    """Exact real scalar: concrete Fraction (c) or z3 Real term (t)."""
    __slots__ = ('c', '_t')

    def __init__(self, v):
        if isinstance(v, Fraction):
            self.c = v
            self._t = None
        elif isinstance(v, z3.ExprRef):
            if z3.is_rational_value(v):
                f = v.as_fraction()
                self.c = Fraction(f.numerator, f.denominator)
                self._t = v
            else:
                self.c = None
                self._t = v
        elif isinstance(v, Q):
            self.c, self._t = v.c, v._t
        else:
            f = _frac(v)
            if f is None:
                raise TypeError(f"cannot make Q from {type(v)}")
            self.c = f
            self._t = None

    @property
    def t(self):
        if self._t is None:
            self._t = _rv(self.c)
        return self._t

    @staticmethod
    def var(name):
        return Q(z3.Real(name))

    def is_const(self):
        return self.c is not None

    # -- coercion
    @staticmethod
    def _co(o):
        if isinstance(o, Q):
            return o
        if isinstance(o, np.ndarray):
            return None
        if isinstance(o, (Qc,)):
            return None
        try:
            f = _frac(o)
        except TypeError:
            return None
        if f is None:
            return None
        return Q(f)

    # -- arithmetic
    def __add__(self, o):
        if o is NAN or _is_nan_const(o):
            return NAN
        if isinstance(o, Qc):
            return Qc(self, 0).__add__(o)
        if isinstance(o, (complex, np.complexfloating)) and o.imag != 0:
            return Qc(self, 0).__add__(o)
        o = Q._co(o)
        if o is None:
            return NotImplemented
        if self.c is not None and o.c is not None:
            return Q(self.c+o.c)
        if o.c is not None and o.c == 0:
            return self
        if self.c is not None and self.c == 0:
            return o
        return Q(self.t+o.t)
    __radd__ = __add__

    def __neg__(self):
        if self.c is not None:
            return Q(-self.c)
        return Q(-self.t)

    def __pos__(self):
        return self

    def __sub__(self, o):
        if o is NAN or _is_nan_const(o):
            return NAN
        if isinstance(o, Qc) or (
                isinstance(o, (complex, np.complexfloating)) and o.imag != 0):
            return Qc(self, 0).__sub__(o)
        o = Q._co(o)
        if o is None:
            return NotImplemented
        if self.c is not None and o.c is not None:
            return Q(self.c-o.c)
        if o.c is not None and o.c == 0:
            return self
        return Q(self.t-o.t)

    def __rsub__(self, o):
        if o is NAN or _is_nan_const(o):
            return NAN
        if isinstance(o, (complex, np.complexfloating)) and o.imag != 0:
            return Qc(o.real, o.imag).__sub__(self)
        o = Q._co(o)
        if o is None:
            return NotImplemented
        return o.__sub__(self)

    def __mul__(self, o):
        if o is NAN or _is_nan_const(o):
            return NAN
        if isinstance(o, Qc) or (
                isinstance(o, (complex, np.complexfloating)) and o.imag != 0):
            return Qc(self, 0).__mul__(o)
        o = Q._co(o)
        if o is None:
            return NotImplemented
        if self.c is not None and o.c is not None:
            return Q(self.c*o.c)
        if o.c is not None:
            if o.c == 0:
                return Q(Fraction(0))
            if o.c == 1:
                return self
        if self.c is not None:
            if self.c == 0:
                return Q(Fraction(0))
            if self.c == 1:
                return o
        return Q(self.t*o.t)
    __rmul__ = __mul__

    def recip(self):
        if self.c is not None:
            if self.c == 0:
                raise ZeroDivisionError("symx: division by concrete zero")
            return Q(1/self.c)
        return Q(ctx().recip(self.t))

    def __truediv__(self, o):
        if o is NAN or _is_nan_const(o):
            return NAN
        if isinstance(o, Qc) or (
                isinstance(o, (complex, np.complexfloating)) and o.imag != 0):
            return Qc(self, 0).__truediv__(o)
        o = Q._co(o)
        if o is None:
            return NotImplemented
        return self*o.recip()

    def __rtruediv__(self, o):
        if o is NAN or _is_nan_const(o):
            return NAN
        if isinstance(o, (complex, np.complexfloating)) and o.imag != 0:
            return Qc(o.real, o.imag)*self.recip()
        o = Q._co(o)
        if o is None:
            return NotImplemented
        return o*self.recip()

    def __pow__(self, n):
        if isinstance(n, Q) and n.c is not None and n.c.denominator == 1:
            n = int(n.c)
        if isinstance(n, (float, np.floating)) and float(n).is_integer():
            n = int(n)
        if isinstance(n, (int, np.integer)):
            n = int(n)
            if n < 0:
                return (self.recip())**(-n)
            r = Q(Fraction(1))
            for _ in range(n):
                r = r*self
            return r
        if isinstance(n, (float, np.floating)) and float(n) == 0.5:
            return sqrt(self)
        raise TypeError(f"symx: unsupported power {n!r}")

    def __rpow__(self, b):
        # b ** self  (e.g. 10**x): uninterpreted with axioms
        if _frac(b) == 10:
            return ufun_apply('p10', self)
        raise TypeError(f"symx: unsupported base {b!r} ** symbolic")

    # -- comparisons -> B
    def _cmp(self, o, op):
        if isinstance(o, (float, np.floating)) and (o != o or o in (
                float('inf'), float('-inf'))):
            return bool(op(0.0, float(o)))     # vs +-inf / nan: concrete
        o = Q._co(o)
        if o is None:
            return NotImplemented
        if self.c is not None and o.c is not None:
            return op(self.c, o.c)
        return B(op(self.t, o.t))

    def __lt__(self, o): return self._cmp(o, lambda a, b: a < b)
    def __le__(self, o): return self._cmp(o, lambda a, b: a <= b)
    def __gt__(self, o): return self._cmp(o, lambda a, b: a > b)
    def __ge__(self, o): return self._cmp(o, lambda a, b: a >= b)
    def __eq__(self, o): return self._cmp(o, lambda a, b: a == b)
    def __ne__(self, o): return self._cmp(o, lambda a, b: a != b)
    __hash__ = object.__hash__

    def __abs__(self):
        if self.c is not None:
            return Q(abs(self.c))
        return Q(z3.If(self.t >= 0, self.t, -self.t))

    def __bool__(self):
        if self.c is not None:
            return self.c != 0
        return ctx().decide(self.t != 0)

    def __float__(self):
        if self.c is not None:
            return float(self.c)
        raise TypeError("symx: float() of a symbolic value "
                        "(would concretise)")

    def __int__(self):
        if self.c is not None:
            return int(self.c)
        raise TypeError("symx: int() of a symbolic value (would concretise)")

    def __repr__(self):
        if self.c is not None:
            return f"Q({self.c})"
        s = str(self.t)
        return f"Q<{s[:60]}{'…' if len(s) > 60 else ''}>"

    def __format__(self, spec):
        if self.c is not None:
            return format(float(self.c), spec)
        return repr(self)

    # numpy-ish attributes so that code written for complex scalars works
    @property
    def real(self): return self
    @property
    def imag(self): return Q(Fraction(0))
    def conjugate(self): return self
    conj = conjugate

    def sqrt(self): return sqrt(self)
    def exp(self): return ufun_apply('exp', self)
    def log(self): return ufun_apply('ln', self)
    def log10(self): return ufun_apply('lg', self)
    def isfinite(self): return True
    def isnan(self): return False
    # numpy-scalar look-alike attributes (np.float64 has them)
    size = 1
    ndim = 0
    shape = ()


class B:
    """Symbolic Boolean; bool() forks."""
    __slots__ = ('t',)

    def __init__(self, t):
        self.t = t

    def __bool__(self):
        return ctx().decide(self.t)

    def __and__(self, o): return B(z3.And(self.t, _bt(o)))
    __rand__ = __and__
    def __or__(self, o): return B(z3.Or(self.t, _bt(o)))
    __ror__ = __or__
    def __invert__(self): return B(z3.Not(self.t))
    def __xor__(self, o): return B(z3.Xor(self.t, _bt(o)))
    __rxor__ = __xor__

    def __eq__(self, o): return B(self.t == _bt(o))
    def __ne__(self, o): return B(self.t != _bt(o))
    __hash__ = object.__hash__

    def __mul__(self, o):  # `equal *= cond` idiom
        return bool(self)*o
    __rmul__ = __mul__

    def __repr__(self):
        return f"B<{self.t}>"


def _bt(x):
    if isinstance(x, B):
        return x.t
    if isinstance(x, (bool, np.bool_)):
        return z3.BoolVal(bool(x))
    if isinstance(x, z3.BoolRef):
        return x
    raise TypeError(f"not a boolean: {x!r}")


def qt(x):
    """z3 real term of a Q / number."""
    if isinstance(x, Q):
        return x.t
    if isinstance(x, z3.ExprRef):
        return x
    return _rv(_frac(x))


# --------------------------------------------------------------------------
# complex scalar (pair of Q)
# --------------------------------------------------------------------------
class Qc:
    """Complex scalar as (re, im) pair of Q."""
    __slots__ = ('re', 'im')

    def __init__(self, re, im=0):
        self.re = re if isinstance(re, Q) else Q(re)
        self.im = im if isinstance(im, Q) else Q(im)

    @staticmethod
    def var(name):
        return Qc(Q.var(name+'.re'), Q.var(name+'.im'))

    @staticmethod
    def _co(o):
        if isinstance(o, Qc):
            return o
        if o is NAN or _is_nan_const(o):
            return None          # -> NotImplemented -> NaNQ's reflected op
        if isinstance(o, Q):
            return Qc(o, 0)
        if isinstance(o, np.ndarray):
            return None
        if isinstance(o, (complex, np.complexfloating)):
            return Qc(Q(float(o.real)), Q(float(o.imag)))
        try:
            f = _frac(o)
        except TypeError:
            return None
        if f is None:
            return None
        return Qc(Q(f), 0)

    def __add__(self, o):
        if o is NAN or _is_nan_const(o):
            return NAN
        o = Qc._co(o)
        if o is None:
            return NotImplemented
        return Qc(self.re+o.re, self.im+o.im)
    __radd__ = __add__

    def __sub__(self, o):
        if o is NAN or _is_nan_const(o):
            return NAN
        o = Qc._co(o)
        if o is None:
            return NotImplemented
        return Qc(self.re-o.re, self.im-o.im)

    def __rsub__(self, o):
        if o is NAN or _is_nan_const(o):
            return NAN
        o = Qc._co(o)
        if o is None:
            return NotImplemented
        return o.__sub__(self)

    def __neg__(self):
        return Qc(-self.re, -self.im)

    def __pos__(self):
        return self

    def __mul__(self, o):
        if o is NAN or _is_nan_const(o):
            return NAN
        o = Qc._co(o)
        if o is None:
            return NotImplemented
        return Qc(self.re*o.re-self.im*o.im, self.re*o.im+self.im*o.re)
    __rmul__ = __mul__

    def recip(self):
        d = (self.re*self.re+self.im*self.im).recip()
        return Qc(self.re*d, -(self.im*d))

    def __truediv__(self, o):
        if o is NAN or _is_nan_const(o):
            return NAN
        o = Qc._co(o)
        if o is None:
            return NotImplemented
        if o.im.c is not None and o.im.c == 0:
            r = o.re.recip()
            return Qc(self.re*r, self.im*r)
        return self*o.recip()

    def __rtruediv__(self, o):
        o = Qc._co(o)
        if o is None:
            return NotImplemented
        return o.__truediv__(self)

    def __pow__(self, n):
        if isinstance(n, (int, np.integer)) and n >= 0:
            r = Qc(1, 0)
            for _ in range(int(n)):
                r = r*self
            return r
        raise TypeError("symx: unsupported complex power")

    def conjugate(self):
        return Qc(self.re, -self.im)
    conj = conjugate

    def exp(self):
        """exp(i*u) for real symbolic u: a unit-modulus pair (c, s)."""
        if not (self.re.c is not None and self.re.c == 0):
            raise TypeError("symx: exp of a general complex number")
        c = ctx()
        key = ('cis', z3.simplify(self.im.t).get_id())
        hit = c.recips.get(key)
        if hit is None:
            co, si = c.fresh('cos'), c.fresh('sin')
            c.keep.append(z3.simplify(self.im.t))
            c.side.append(co*co+si*si == 1)
            c._feas = None
            c.recips[key] = (self.im.t, (co, si))
        else:
            co, si = hit[1]
        return Qc(Q(co), Q(si))

    @property
    def real(self): return self.re
    @property
    def imag(self): return self.im

    def abs2(self):
        return self.re*self.re+self.im*self.im

    def __abs__(self):
        return sqrt(self.abs2())

    def __eq__(self, o):
        o = Qc._co(o)
        if o is None:
            return NotImplemented
        a = self.re == o.re
        b = self.im == o.im
        if isinstance(a, bool) and isinstance(b, bool):
            return a and b
        return B(z3.And(_bt(a), _bt(b)))

    def __ne__(self, o):
        r = self.__eq__(o)
        if isinstance(r, bool):
            return not r
        return ~r
    __hash__ = object.__hash__

    def __bool__(self):
        r = self.__ne__(0)
        return bool(r)

    def __complex__(self):
        return complex(float(self.re), float(self.im))

    def __format__(self, spec):
        if self.re.c is not None and self.im.c is not None:
            return format(complex(self), spec)
        return '<sym>'

    def __repr__(self):
        return f"Qc({self.re!r}, {self.im!r})"


# --------------------------------------------------------------------------
# transcendental functions as uninterpreted functions + axioms
# --------------------------------------------------------------------------
def sqrt(x):
    """sqrt as fresh variable s with s*s == x, s >= 0 (requires x >= 0)."""
    if isinstance(x, Qc):
        raise TypeError("symx: sqrt of complex")
    x = x if isinstance(x, Q) else Q(x)
    if x.c is not None:
        from math import isqrt
        n, d = x.c.numerator, x.c.denominator
        if n >= 0 and isqrt(n)**2 == n and isqrt(d)**2 == d:
            return Q(Fraction(isqrt(n), isqrt(d)))
    c = ctx()
    key = ('sqrt', z3.simplify(x.t).get_id())
    hit = c.recips.get(key)
    if hit is None:
        s = c.fresh('sqrt')
        c.keep.append(z3.simplify(x.t))
        c.side.append(z3.And(s*s == x.t, s >= 0))
        c._feas = None
        c.recips[key] = (x.t, s)
    else:
        s = hit[1]
    return Q(s)


_UF_AXIOMS = {}


def ufun_apply(name, x):
    """Apply an uninterpreted real function, adding per-application axioms."""
    c = ctx()
    x = x if isinstance(x, Q) else Q(x)
    f = c.ufun(name)
    y = f(x.t)
    key = (name, z3.simplify(x.t).get_id())
    if key not in c.recips:
        c.recips[key] = (x.t, y)
        c.keep.append(z3.simplify(x.t))
        ax = _UF_AXIOMS.get(name)
        if ax:
            for a in ax(c, x.t, y):
                c.side.append(a)
            c._feas = None
    return Q(y)


def _ax_exp(c, x, y):
    ln = c.ufun('ln')
    ex = c.ufun('exp')
    return [y > 0, ln(y) == x, ex(-x)*y == 1]


def _recip_log_axiom(c, fname, iname, x, y):
    """log(1/m) == -log(m) when the argument is a reciprocal variable."""
    m = c.recip_den.get(x.get_id())
    if m is None:
        return []
    f, inv = c.ufun(fname), c.ufun(iname)
    return [y == -f(m), z3.Implies(m > 0, inv(f(m)) == m)]


def _ax_ln(c, x, y):
    ex = c.ufun('exp')
    return [z3.Implies(x > 0, ex(y) == x)] + _recip_log_axiom(
        c, 'ln', 'exp', x, y)


def _ax_p10(c, x, y):
    lg = c.ufun('lg')
    p10 = c.ufun('p10')
    return [y > 0, lg(y) == x, p10(-x)*y == 1]


def _ax_lg(c, x, y):
    p10 = c.ufun('p10')
    return [z3.Implies(x > 0, p10(y) == x)] + _recip_log_axiom(
        c, 'lg', 'p10', x, y)


_UF_AXIOMS.update(exp=_ax_exp, ln=_ax_ln, p10=_ax_p10, lg=_ax_lg)


# --------------------------------------------------------------------------
# helpers for harnesses
# --------------------------------------------------------------------------
def sym_array(name, shape, positive=False, kind='real'):
    """Object ndarray of fresh symbolic scalars named name[i,j,..]."""
    from .proxies import SymArray
    shape = (shape,) if isinstance(shape, int) else tuple(shape)
    a = np.empty(shape, dtype=object)
    c = ctx()
    for idx in np.ndindex(*shape):
        nm = f"{name}[{','.join(map(str, idx))}]"
        if kind == 'real':
            v = Q.var(nm)
            if positive:
                c.side.append(v.t > 0)
        elif kind == 'complex':
            v = Qc.var(nm)
        else:
            raise ValueError(kind)
        a[idx] = v
    c._feas = None
    return a.view(SymArray)


def is_sym(x):
    return isinstance(x, (Q, Qc, B))


def model_value(m, x):
    """Evaluate Q under model m -> Fraction."""
    if isinstance(x, Q):
        if x.c is not None:
            return x.c
        v = m.eval(x.t, model_completion=True)
    else:
        v = m.eval(x, model_completion=True)
    if z3.is_rational_value(v):
        f = v.as_fraction()
        return Fraction(f.numerator, f.denominator)
    if z3.is_algebraic_value(v):
        f = v.approx(30).as_fraction()
        return Fraction(f.numerator, f.denominator)
    raise ValueError(f"cannot evaluate {v}")


# --------------------------------------------------------------------------
# Integers (z3 Int) — shapes, levels, counters
# --------------------------------------------------------------------------
class Z:
    """Symbolic integer: concrete python int (c) or z3 Int term (t)."""
    __slots__ = ('c', '_t')

    def __init__(self, v):
        if isinstance(v, Z):
            self.c, self._t = v.c, v._t
        elif isinstance(v, (int, np.integer)) and not isinstance(v, bool):
            self.c, self._t = int(v), None
        elif isinstance(v, z3.ExprRef):
            v = z3.simplify(v)
            if z3.is_int_value(v):
                self.c, self._t = v.as_long(), v
            else:
                self.c, self._t = None, v
        else:
            raise TypeError(f"cannot make Z from {type(v)}")

    @staticmethod
    def var(name):
        return Z(z3.Int(name))

    @property
    def t(self):
        if self._t is None:
            self._t = z3.IntVal(self.c)
        return self._t

    @staticmethod
    def _co(o):
        if isinstance(o, Z):
            return o
        if isinstance(o, (bool, np.bool_)):
            return Z(int(o))
        if isinstance(o, (int, np.integer)):
            return Z(int(o))
        if isinstance(o, (float, np.floating)) and float(o).is_integer():
            return Z(int(o))
        return None

    def _bin(self, o, f, zf):
        o = Z._co(o)
        if o is None:
            return NotImplemented
        if self.c is not None and o.c is not None:
            return Z(f(self.c, o.c))
        return Z(zf(self.t, o.t))

    def __add__(self, o): return self._bin(o, lambda a, b: a+b,
                                           lambda a, b: a+b)
    __radd__ = __add__
    def __sub__(self, o): return self._bin(o, lambda a, b: a-b,
                                           lambda a, b: a-b)

    def __rsub__(self, o):
        o = Z._co(o)
        return NotImplemented if o is None else o.__sub__(self)

    def __mul__(self, o): return self._bin(o, lambda a, b: a*b,
                                           lambda a, b: a*b)
    __rmul__ = __mul__
    def __neg__(self): return Z(-self.c) if self.c is not None else Z(-self.t)

    def __mod__(self, o):
        o = Z._co(o)
        if o is None or o.c is None or o.c <= 0:
            raise TypeError("symx: Z % non-constant")
        if self.c is not None:
            return Z(self.c % o.c)
        return Z(self.t % o.c)

    def __floordiv__(self, o):
        o = Z._co(o)
        if o is None or o.c is None or o.c <= 0:
            raise TypeError("symx: Z // non-constant")
        if self.c is not None:
            return Z(self.c // o.c)
        return Z(self.t / o.c)        # z3 Int division: floor for k > 0

    def __truediv__(self, o):
        """Exact quotient; only defined when divisibility is decided."""
        o = Z._co(o)
        if o is None or o.c is None or o.c <= 0:
            raise TypeError("symx: Z / non-constant")
        if o.c == 1:
            return self
        if self.c is not None:
            if self.c % o.c == 0:
                return Z(self.c // o.c)
            return self.c / o.c
        if ctx().decide(self.t % o.c == 0):
            return Z(self.t / o.c)
        raise NotImplementedError("symx: non-integer quotient of symbolic "
                                  "integer")

    def _cmp(self, o, f, zf):
        o = Z._co(o)
        if o is None:
            if isinstance(o, float) or True:
                return NotImplemented
        if self.c is not None and o.c is not None:
            return f(self.c, o.c)
        return B(zf(self.t, o.t))

    def __lt__(self, o):
        if isinstance(o, float) and o == float('inf'):
            return True
        return self._cmp(o, lambda a, b: a < b, lambda a, b: a < b)

    def __le__(self, o): return self._cmp(o, lambda a, b: a <= b,
                                          lambda a, b: a <= b)

    def __gt__(self, o): return self._cmp(o, lambda a, b: a > b,
                                          lambda a, b: a > b)

    def __ge__(self, o): return self._cmp(o, lambda a, b: a >= b,
                                          lambda a, b: a >= b)

    def __eq__(self, o): return self._cmp(o, lambda a, b: a == b,
                                          lambda a, b: a == b)

    def __ne__(self, o): return self._cmp(o, lambda a, b: a != b,
                                          lambda a, b: a != b)
    __hash__ = object.__hash__

    def __bool__(self):
        if self.c is not None:
            return self.c != 0
        return ctx().decide(self.t != 0)

    def __int__(self):
        if self.c is not None:
            return self.c
        raise TypeError("symx: int() of symbolic integer")

    def __index__(self):
        if self.c is not None:
            return self.c
        raise TypeError("symx: symbolic integer used as index")

    def __format__(self, spec):
        if self.c is not None:
            return format(self.c, spec)
        return '<sym>'

    def __repr__(self):
        return f"Z({self.c})" if self.c is not None else f"Z<{self.t}>"


def symint(x):
    """Replacement for builtins.int inside shadow modules."""
    if isinstance(x, Z):
        return x
    if isinstance(x, Q) and x.c is not None:
        return int(x.c)
    return int(x)


# --------------------------------------------------------------------------
# IEEE-754 doubles (z3 Float64, round-nearest-even)
# --------------------------------------------------------------------------
_F64 = z3.Float64()
_RNE = z3.RNE()


class F64:
    """Symbolic IEEE-754 binary64 value."""
    __slots__ = ('t',)

    def __init__(self, t):
        if isinstance(t, F64):
            t = t.t
        elif isinstance(t, (int, float, np.floating, np.integer)):
            t = z3.FPVal(float(t), _F64)
        self.t = t

    @staticmethod
    def var(name):
        return F64(z3.FP(name, _F64))

    @staticmethod
    def _co(o):
        if isinstance(o, F64):
            return o
        if isinstance(o, (bool, np.bool_)):
            return None
        if isinstance(o, (int, float, np.floating, np.integer)):
            return F64(o)
        return None

    def _bin(self, o, f, swap=False):
        o = F64._co(o)
        if o is None:
            return NotImplemented
        a, b = (o.t, self.t) if swap else (self.t, o.t)
        return F64(f(a, b))

    def __mul__(self, o):
        c = _CTX[0]
        if c is not None and c.fp_abstract:
            o2 = F64._co(o)
            if o2 is None:
                return NotImplemented
            return _fp_abstract_mul(c, self.t, o2.t)
        return self._bin(o, lambda a, b: z3.fpMul(_RNE, a, b))
    __rmul__ = __mul__
    def __add__(self, o): return self._bin(o, lambda a, b: z3.fpAdd(_RNE, a,
                                                                     b))
    __radd__ = __add__
    def __sub__(self, o): return self._bin(o, lambda a, b: z3.fpSub(_RNE, a,
                                                                     b))

    def __rsub__(self, o): return self._bin(
        o, lambda a, b: z3.fpSub(_RNE, a, b), swap=True)

    def __truediv__(self, o):
        c = _CTX[0]
        if c is not None and c.fp_abstract:
            o2 = F64._co(o)
            if o2 is None:
                return NotImplemented
            return _fp_abstract_div(c, self.t, o2.t)
        return self._bin(o, lambda a, b: z3.fpDiv(_RNE, a, b))

    def __rtruediv__(self, o):
        c = _CTX[0]
        if c is not None and c.fp_abstract:
            o2 = F64._co(o)
            if o2 is None:
                return NotImplemented
            return _fp_abstract_div(c, o2.t, self.t)
        return self._bin(o, lambda a, b: z3.fpDiv(_RNE, a, b), swap=True)

    def __neg__(self): return F64(z3.fpNeg(self.t))
    def __abs__(self): return F64(z3.fpAbs(self.t))

    def _cmp(self, o, f):
        o = F64._co(o)
        if o is None:
            return NotImplemented
        return B(f(self.t, o.t))

    def __lt__(self, o): return self._cmp(o, z3.fpLT)
    def __le__(self, o): return self._cmp(o, z3.fpLEQ)
    def __gt__(self, o): return self._cmp(o, z3.fpGT)
    def __ge__(self, o): return self._cmp(o, z3.fpGEQ)
    def __eq__(self, o): return self._cmp(o, z3.fpEQ)
    def __ne__(self, o): return self._cmp(o, lambda a, b: z3.Not(
        z3.fpEQ(a, b)))
    __hash__ = object.__hash__

    def isfinite_(self):
        return B(z3.And(z3.Not(z3.fpIsNaN(self.t)), z3.Not(z3.fpIsInf(
            self.t))))

    def isnan_(self):
        return B(z3.fpIsNaN(self.t))

    def __float__(self):
        raise TypeError("symx: float() of symbolic double")

    def __format__(self, spec):
        return '<f64>'

    def __repr__(self):
        return f"F64<{self.t}>"

    def same_as(self, o):
        """Bit-level sameness up to NaN (both NaN, or fpEQ and same sign)."""
        o = F64._co(o)
        return z3.Or(z3.And(z3.fpIsNaN(self.t), z3.fpIsNaN(o.t)),
                     self.t == o.t)


def _fp_abstract_mul(c, a, b):
    """Sound over-approximation of RNE(a*b) using comparisons only."""
    ia, ib = a.get_id(), b.get_id()
    key = ('mul',)+tuple(sorted((ia, ib)))
    hit = c.fp_products.get(key)
    if hit is not None:
        return F64(hit)
    m = c.fresh('fpmul', 'f64')
    c.keep += [a, b, m]
    one = z3.FPVal(1.0, _F64)
    nan_in = z3.Or(z3.fpIsNaN(a), z3.fpIsNaN(b))
    fin = lambda x: z3.And(z3.Not(z3.fpIsNaN(x)), z3.Not(z3.fpIsInf(x)))
    aa, ab, am = z3.fpAbs(a), z3.fpAbs(b), z3.fpAbs(m)
    cons = [
        z3.Implies(nan_in, z3.fpIsNaN(m)),
        z3.Implies(z3.And(fin(a), fin(b)), z3.Not(z3.fpIsNaN(m))),
        z3.Implies(z3.And(fin(a), fin(b), z3.fpLEQ(aa, one)),
                   z3.fpLEQ(am, ab)),
        z3.Implies(z3.And(fin(a), fin(b), z3.fpLEQ(ab, one)),
                   z3.fpLEQ(am, aa)),
        z3.Implies(z3.And(z3.Not(nan_in), z3.fpGEQ(aa, one),
                          z3.Not(z3.fpIsNaN(m))), z3.fpGEQ(am, ab)),
        z3.Implies(z3.And(z3.Not(nan_in), z3.fpGEQ(ab, one),
                          z3.Not(z3.fpIsNaN(m))), z3.fpGEQ(am, aa)),
        z3.Implies(z3.Not(z3.fpIsNaN(m)),
                   z3.fpIsNegative(m) == z3.Xor(z3.fpIsNegative(a),
                                                z3.fpIsNegative(b))),
        z3.Implies(z3.And(z3.fpIsZero(a), fin(b)), z3.fpIsZero(m)),
        z3.Implies(z3.And(z3.fpIsZero(b), fin(a)), z3.fpIsZero(m)),
    ]
    c.side.extend(cons)
    c._feas = None
    c.fp_products[key] = m
    c.fp_refine.append(m == z3.fpMul(_RNE, a, b))
    return F64(m)


def _fp_abstract_div(c, a, b):
    key = ('div', a.get_id(), b.get_id())
    hit = c.fp_products.get(key)
    if hit is not None:
        return F64(hit)
    m = c.fresh('fpdiv', 'f64')
    c.keep += [a, b, m]
    c.fp_products[key] = m
    c.fp_refine.append(m == z3.fpDiv(_RNE, a, b))
    return F64(m)


def f64_model_value(m, x):
    """Concrete python float (exact bits) of an F64 under model m."""
    import struct
    v = z3.simplify(m.eval(x.t if isinstance(x, F64) else x,
                           model_completion=True))
    if v.isNaN():
        return float('nan')
    if v.isInf():
        return float('-inf') if v.isNegative() else float('inf')
    sign = 1 if v.isNegative() else 0
    if v.isZero():
        return -0.0 if sign else 0.0
    ex = v.exponent_as_long(True)
    sig = v.significand_as_long()
    bits = (sign << 63) | (ex << 52) | sig
    return struct.unpack('>d', struct.pack('>Q', bits))[0]


# --------------------------------------------------------------------------
# Strings (z3 String) — dictionary keys
# --------------------------------------------------------------------------
class SStr:
    """Symbolic string (z3 String term).  Equality / containment fork."""
    __slots__ = ('t',)
    MAXLEN = 12

    def __init__(self, t):
        if isinstance(t, SStr):
            t = t.t
        elif isinstance(t, str):
            t = z3.StringVal(t)
        self.t = t

    @staticmethod
    def var(name):
        return SStr(z3.String(name))

    @staticmethod
    def _co(o):
        if isinstance(o, SStr):
            return o
        if isinstance(o, str):
            return SStr(o)
        return None

    def concrete(self):
        e = z3.simplify(self.t)
        if z3.is_string_value(e):
            return e.as_string()
        return None

    # -- syntactic reasoning under registered character-set assumptions ----
    def _parts(self):
        """Flatten into literal strings and variable terms (or None)."""
        out = []

        def walk(t):
            if z3.is_string_value(t):
                if out and isinstance(out[-1], str):
                    out[-1] += t.as_string()
                else:
                    out.append(t.as_string())
                return True
            if z3.is_const(t) and t.decl().kind() == z3.Z3_OP_UNINTERPRETED:
                out.append(t)
                return True
            if t.decl().kind() == z3.Z3_OP_SEQ_CONCAT:
                return all(walk(ch) for ch in t.children())
            return False
        return out if walk(z3.simplify(self.t)) else None

    def _free_of(self, chars, parts):
        reg = ctx().str_free
        for p in parts:
            if not isinstance(p, str):
                if not set(chars) <= reg.get(p.get_id(), set()):
                    return False
        return True

    @staticmethod
    def _join(parts):
        if not parts:
            return SStr('')
        terms = [z3.StringVal(p) if isinstance(p, str) else p for p in parts]
        if len(terms) == 1:
            return SStr(terms[0])
        return SStr(z3.simplify(z3.Concat(*terms)))

    def __add__(self, o):
        o = SStr._co(o)
        if o is None:
            return NotImplemented
        return SStr(z3.simplify(z3.Concat(self.t, o.t)))

    def __radd__(self, o):
        o = SStr._co(o)
        if o is None:
            return NotImplemented
        return SStr(z3.simplify(z3.Concat(o.t, self.t)))

    def __eq__(self, o):
        o = SStr._co(o)
        if o is None:
            return False
        a, b = self.concrete(), o.concrete()
        if a is not None and b is not None:
            return a == b
        return B(self.t == o.t)

    def __ne__(self, o):
        r = self.__eq__(o)
        return (not r) if isinstance(r, bool) else ~r

    def __hash__(self):
        return 7            # all symbolic strings collide: dicts compare

    def __contains__(self, sub):
        sub = SStr._co(sub)
        lit = sub.concrete()
        parts = self._parts()
        if lit is not None and parts is not None and lit and \
                self._free_of(lit, parts):
            # variables contain none of the pattern's characters (lemma
            # 'no overlap'): occurrences lie inside literal runs
            return any(isinstance(p, str) and lit in p for p in parts)
        return ctx().decide(z3.Contains(self.t, sub.t))

    def startswith(self, p):
        return ctx().decide(z3.PrefixOf(SStr._co(p).t, self.t))

    def endswith(self, p):
        return ctx().decide(z3.SuffixOf(SStr._co(p).t, self.t))

    def __len__(self):
        v = self.concrete()
        if v is not None:
            return len(v)
        c = ctx()
        ln = z3.Length(self.t)
        for k in range(SStr.MAXLEN+1):
            if c.decide(ln == k):
                return k
        raise Inconclusive("symx: string longer than SStr.MAXLEN")

    def split(self, sep, maxsplit=-1):
        """str.split(sep) with a concrete separator (forks per part)."""
        assert isinstance(sep, str) and sep
        parts = self._parts()
        if parts is not None and self._free_of(sep, parts):
            pieces, cur_p = [], []
            for p in parts:
                if isinstance(p, str):
                    segs = p.split(sep)
                    for i, sg in enumerate(segs):
                        if i > 0:
                            pieces.append(cur_p)
                            cur_p = []
                        if sg:
                            cur_p.append(sg)
                else:
                    cur_p.append(p)
            pieces.append(cur_p)
            return [SStr._join(x) for x in pieces]
        out = []
        cur = self.t
        c = ctx()
        for _ in range(SStr.MAXLEN+1):
            if not c.decide(z3.Contains(cur, z3.StringVal(sep))):
                out.append(SStr(z3.simplify(cur)))
                return out
            i = z3.IndexOf(cur, z3.StringVal(sep), 0)
            out.append(SStr(z3.simplify(z3.SubString(cur, 0, i))))
            cur = z3.SubString(cur, i+len(sep), z3.Length(cur))
        raise Inconclusive("symx: too many parts in split")

    def replace(self, old, new):
        old, new = SStr._co(old), SStr._co(new)
        lit = old.concrete()
        parts = self._parts()
        if lit and parts is not None and self._free_of(lit[0], parts):
            # an occurrence must start inside a literal run (variables lack
            # its first character)
            res = []
            okay = True
            for i, p in enumerate(parts):
                if not isinstance(p, str):
                    res.append(p)
                    continue
                nxt_var = i+1 < len(parts)
                # partial match at the end of the run followed by a var?
                for k in range(1, len(lit)):
                    if nxt_var and p.endswith(lit[:k]) and \
                            not self._free_of(lit[k], [parts[i+1]]):
                        okay = False
                npart = new.concrete()
                if npart is None:
                    okay = False
                    break
                res.append(p.replace(lit, npart))
            if okay:
                return SStr._join([r for r in res if not (
                    isinstance(r, str) and r == '')])
        # python replaces all occurrences: iterate first-occurrence replace
        c = ctx()
        cur = self.t
        res = z3.StringVal('')
        for _ in range(SStr.MAXLEN+1):
            if c.decide(z3.Length(old.t) == 0) or \
                    not c.decide(z3.Contains(cur, old.t)):
                return SStr(z3.simplify(z3.Concat(res, cur)))
            i = z3.IndexOf(cur, old.t, 0)
            res = z3.Concat(res, z3.SubString(cur, 0, i), new.t)
            cur = z3.SubString(cur, i+z3.Length(old.t), z3.Length(cur))
        raise Inconclusive("symx: too many replacements")

    def __getitem__(self, k):
        parts = self._parts()
        if isinstance(k, slice) and k.step is None and parts and \
                isinstance(parts[-1], str):
            # tail / head slices that stay inside the last literal run
            if k.start is not None and k.start < 0 and k.stop is None and \
                    -k.start <= len(parts[-1]):
                return SStr(parts[-1][k.start:])
            if len(parts) == 1:
                return SStr(parts[0][k])
        n = len(self)
        if isinstance(k, slice):
            a, b, st = k.indices(n)
            if st != 1:
                raise TypeError("symx: string slice with step")
            return SStr(z3.simplify(z3.SubString(self.t, a, max(0, b-a))))
        if k < 0:
            k += n
        return SStr(z3.simplify(z3.SubString(self.t, k, 1)))

    def __str__(self):
        v = self.concrete()
        if v is None:
            raise TypeError("symx: str() of a symbolic string")
        return v

    def __repr__(self):
        return f"SStr<{self.t}>"


class _StrMeta(type):
    def __instancecheck__(cls, obj):
        return isinstance(obj, str)

    def __call__(cls, x=''):
        return x if isinstance(x, SStr) else str(x)


class symstr(metaclass=_StrMeta):
    """Replacement for builtins.str inside shadow modules: str(x) keeps a
    symbolic string; isinstance(v, str) behaves as for the builtin."""


class _FloatMeta(type):
    def __instancecheck__(cls, obj):
        return isinstance(obj, float)

    def __call__(cls, x=0.0):
        if isinstance(x, (Q, F64)):
            return x
        if isinstance(x, np.ndarray) and x.dtype == object and x.size == 1 \
                and isinstance(x.item(), (Q, F64)):
            return x.item()
        return float(x)


class symfloat(metaclass=_FloatMeta):
    """Replacement for builtins.float inside shadow modules: float(x) keeps
    a symbolic scalar; isinstance(v, float) and dtype=float behave as for
    the builtin (the numpy proxies map it to float64)."""
