"""symx: symbolic execution of the real emg3d source on z3 terms."""
from .core import (Ctx, ctx, set_ctx, Q, Qc, B, Z, F64, symint, Inconclusive,
                   Infeasible, f64_model_value, NAN, NaNQ, SStr, symstr,
                   PathAbort, sym_array, qt, model_value, sqrt, ufun_apply,
                   symfloat)
from .proxies import symnp, symsp, symnb, State, SymArray, has_sym
