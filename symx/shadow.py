"""Shadow package: emg3d's own source with only its imports rewritten.

Built from /repo's *current working tree* on every run, in a temp directory
outside /repo and /verif, and removed at exit.  Function bodies, class bodies
and defaults are the repository's own; only ``import numpy/scipy/numba``,
``concurrent.futures``/``tqdm`` (process-pool environment model, symx.cfmodel)
and ``emg3d`` self-imports are redirected (ast rewrite).
"""
import os
import ast
import sys
import atexit
import shutil
import hashlib
import tempfile
import importlib

REPO = os.environ.get('EMG3D_REPO', '/repo')
SHADOW_NAME = 'emg3d_sym'
_state = {}


class _Rewrite(ast.NodeTransformer):
    def __init__(self):
        self.count = 0

    def visit_Import(self, node):
        out = []
        for a in node.names:
            top = a.name.split('.')[0]
            if a.name == 'numpy':
                out.append(ast.ImportFrom(
                    'symx', [ast.alias('symnp', a.asname or 'numpy')], 0))
                self.count += 1
            elif a.name == 'scipy':
                out.append(ast.ImportFrom(
                    'symx', [ast.alias('symsp', a.asname or 'scipy')], 0))
                self.count += 1
            elif a.name == 'numba':
                out.append(ast.ImportFrom(
                    'symx', [ast.alias('symnb', a.asname or 'numba')], 0))
                self.count += 1
            elif top == 'tqdm':
                # process-pool / progress-bar environment -> model (cfmodel)
                out.append(ast.ImportFrom(
                    'symx.cfmodel', [ast.alias('TqdmModel',
                                               a.asname or 'tqdm')], 0))
                self.count += 1
            elif a.name == 'concurrent.futures':
                out.append(ast.ImportFrom(
                    'symx', [ast.alias('cfmodel', a.asname or 'concurrent')],
                    0))
                self.count += 1
            elif top == 'emg3d':
                new = SHADOW_NAME + a.name[len('emg3d'):]
                out.append(ast.Import([ast.alias(new, a.asname)]))
                self.count += 1
            else:
                out.append(ast.Import([a]))
        return out

    def visit_ImportFrom(self, node):
        if node.level == 0 and node.module and (
                node.module == 'emg3d' or node.module.startswith('emg3d.')):
            node.module = SHADOW_NAME + node.module[len('emg3d'):]
            self.count += 1
        elif node.level == 0 and node.module == 'concurrent.futures':
            node.module = 'symx.cfmodel'
            self.count += 1
        elif node.level == 0 and node.module == 'concurrent':
            node.module = 'symx'
            node.names = [ast.alias('cfmodel', a.asname or a.name)
                          if a.name == 'futures' else a for a in node.names]
            self.count += 1
        return node


def build(repo=None):
    """Write the shadow package; return (dir, {relpath: sha256})."""
    repo = repo or REPO
    src = os.path.join(repo, 'emg3d')
    tmp = tempfile.mkdtemp(prefix='emg3d_shadow_')
    dst = os.path.join(tmp, SHADOW_NAME)
    hashes = {}
    for root, dirs, files in os.walk(src):
        dirs[:] = [d for d in dirs if d != '__pycache__']
        rel = os.path.relpath(root, src)
        os.makedirs(os.path.join(dst, rel), exist_ok=True)
        for f in files:
            if not f.endswith('.py'):
                continue
            p = os.path.join(root, f)
            text = open(p, encoding='utf-8').read()
            hashes[os.path.normpath(os.path.join('emg3d', rel, f))] = \
                hashlib.sha256(text.encode()).hexdigest()[:16]
            tree = ast.parse(text, filename=p)
            tree = _Rewrite().visit(tree)
            ast.fix_missing_locations(tree)
            with open(os.path.join(dst, rel, f), 'w', encoding='utf-8') as o:
                o.write(ast.unparse(tree))
    atexit.register(shutil.rmtree, tmp, True)
    return tmp, hashes


def load(repo=None, fresh=False):
    """Import (once per process) and return the shadow package."""
    if 'pkg' in _state and not fresh:
        return _state['pkg']
    tmp, hashes = build(repo)
    sys.path.insert(0, tmp)
    sys.dont_write_bytecode = True
    for k in [k for k in sys.modules if k == SHADOW_NAME or
              k.startswith(SHADOW_NAME+'.')]:
        del sys.modules[k]
    pkg = importlib.import_module(SHADOW_NAME)
    for sub in ('core', 'solver', 'fields', 'maps', 'models', 'meshes',
                'electrodes', 'surveys', 'simulations', 'io', 'time',
                'utils', '_multiprocessing', 'cli', 'cli.parser', 'cli.run'):
        importlib.import_module(f'{SHADOW_NAME}.{sub}')
    _state.update(pkg=pkg, dir=tmp, hashes=hashes)
    return pkg


def hashes():
    return dict(_state.get('hashes', {}))


def func_lines(mod_rel, names):
    """{name: 'file:first-last'} for top-level defs/classes/methods."""
    p = os.path.join(REPO, mod_rel)
    tree = ast.parse(open(p, encoding='utf-8').read())
    out = {}
    for node in ast.walk(tree):
        if isinstance(node, (ast.FunctionDef, ast.ClassDef)) and \
                node.name in names:
            first = min([node.lineno]+[d.lineno for d in node.decorator_list])
            out[node.name] = f"{mod_rel}:{first}-{node.end_lineno}"
    return out
