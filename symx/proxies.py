"""NumPy / SciPy / Numba proxies for the shadow package.

Every attribute falls through to the real library; the few functions that
cannot work on object arrays of symbolic scalars are intercepted, and only
when an argument actually is symbolic.  With concrete inputs (and
``OBJECT_ALLOC`` off) the shadow package therefore behaves like the real one.
"""
import types
from fractions import Fraction

import numpy as _np
import scipy as _sp
import z3

from . import core as C
from .core import Q, Qc, B, Z, F64, NaNQ

_SYM = (Q, Qc, B, Z, F64, NaNQ)


class State:
    OBJECT_ALLOC = False     # zeros/ones/empty of float/complex -> object
    ROUND_IDENTITY = True    # np.round(sym, k) is identity (assumption)


class SymArray(_np.ndarray):
    """Object ndarray carrying symbolic scalars (thin subclass)."""

    def __array_finalize__(self, obj):
        pass

    @property
    def real(self):
        if self.dtype == object:
            return _elementwise(self, lambda v: getattr(v, 'real', v))
        return _np.ndarray.real.__get__(self)

    @property
    def imag(self):
        if self.dtype == object:
            return _elementwise(
                self, lambda v: getattr(v, 'imag', 0) if not
                isinstance(v, (int, float, Fraction)) else 0)
        return _np.ndarray.imag.__get__(self)

    def conj(self):
        if self.dtype == object:
            return _elementwise(
                self, lambda v: v.conjugate() if hasattr(v, 'conjugate')
                else v)
        return _np.ndarray.conj(self)
    conjugate = conj

    @staticmethod
    def _conc_key(key):
        """Object arrays of symbolic Booleans used as masks are made
        concrete by forking on every element."""
        def conv(k):
            if isinstance(k, _np.ndarray) and k.dtype == object:
                out = _np.empty(k.shape, dtype=bool)
                for idx in _np.ndindex(*k.shape):
                    out[idx] = bool(k[idx])
                return out
            return k
        if isinstance(key, tuple):
            return tuple(conv(k) for k in key)
        return conv(key)

    def __getitem__(self, key):
        return _np.ndarray.__getitem__(self, SymArray._conc_key(key))

    def __setitem__(self, key, value):
        return _np.ndarray.__setitem__(self, SymArray._conc_key(key), value)

    def max(self, *a, **k):
        if self.dtype == object and has_sym(self) and not a and not k:
            return maximum_reduce(self)
        return _np.ndarray.max(self, *a, **k)

    def min(self, *a, **k):
        if self.dtype == object and has_sym(self) and not a and not k:
            return minimum_reduce(self)
        return _np.ndarray.min(self, *a, **k)

    def astype(self, dtype, *a, **k):
        if self.dtype == object and has_sym(self):
            dt = _np.dtype(dtype)
            if dt.kind in 'fc' or dt == object:
                return self.copy()
        return _np.ndarray.astype(self, dtype, *a, **k)

    def any(self, *a, **k):
        if self.dtype == object and not a and not k:
            return any_(self)
        return _np.ndarray.any(self, *a, **k)

    def all(self, *a, **k):
        if self.dtype == object and not a and not k:
            return all_(self)
        return _np.ndarray.all(self, *a, **k)


def _elementwise(a, f):
    out = _np.empty(a.shape, dtype=object)
    for idx in _np.ndindex(*a.shape):
        out[idx] = f(a[idx])
    return out.view(SymArray)


def has_sym(x):
    """True if x is / contains a symbolic scalar."""
    if isinstance(x, _SYM):
        return True
    if isinstance(x, _np.ndarray):
        if x.dtype != object:
            return False
        for v in x.flat:
            if isinstance(v, _SYM):
                return True
        return False
    if isinstance(x, (list, tuple)):
        return any(has_sym(v) for v in x)
    return False


def _wrap(a):
    if isinstance(a, _np.ndarray) and a.dtype == object and \
            not isinstance(a, SymArray):
        return a.view(SymArray)
    return a


def _objfill(shape, val):
    shape = (shape,) if isinstance(shape, (int, _np.integer)) else tuple(shape)
    a = _np.empty(shape, dtype=object)
    a.fill(val)   # same immutable object in every slot
    return a.view(SymArray)


def _dt(dtype):
    """builtins.float shadowed by symx.symfloat stands for float64."""
    return float if dtype is C.symfloat else dtype


def _is_numeric_dtype(dtype):
    dtype = _dt(dtype)
    if dtype is None:
        return True
    if dtype is object:
        return True
    dt = _np.dtype(dtype)
    return dt.kind in 'fcO'


def any_(a):
    acc = None
    for v in _np.asarray(a, dtype=object).flat:
        if isinstance(v, B):
            acc = v if acc is None else (acc | v)
        elif bool(v):
            return True
    if acc is None:
        return False
    return bool(acc)


def all_(a):
    acc = None
    for v in _np.asarray(a, dtype=object).flat:
        if isinstance(v, B):
            acc = v if acc is None else (acc & v)
        elif not bool(v):
            return False
    if acc is None:
        return True
    return bool(acc)


class _Namespace:
    """Attribute fall-through proxy of a module."""

    def __init__(self, real, overrides=None):
        object.__setattr__(self, '_real', real)
        for k, v in (overrides or {}).items():
            object.__setattr__(self, k, v)

    def __getattr__(self, name):
        return getattr(object.__getattribute__(self, '_real'), name)


# ---------------------------------------------------------------- numpy ---
def zeros(shape, dtype=float, order='C', **kw):
    if State.OBJECT_ALLOC and _is_numeric_dtype(dtype):
        return _objfill(shape, Q(Fraction(0)))
    return _np.zeros(shape, dtype=dtype, order=order, **kw)


def ones(shape, dtype=None, order='C', **kw):
    if State.OBJECT_ALLOC and _is_numeric_dtype(dtype):
        return _objfill(shape, Q(Fraction(1)))
    return _np.ones(shape, dtype=dtype, order=order, **kw)


def empty(shape, dtype=float, order='C', **kw):
    if State.OBJECT_ALLOC and _is_numeric_dtype(dtype):
        return _objfill(shape, None)
    return _np.empty(shape, dtype=dtype, order=order, **kw)


def full(shape, fill_value, dtype=None, order='C', **kw):
    if has_sym(fill_value) or (State.OBJECT_ALLOC and _is_numeric_dtype(dtype)
                               and not isinstance(fill_value, (bool, str))):
        return _objfill(shape, fill_value)
    return _np.full(shape, fill_value, dtype=dtype, order=order, **kw)


def zeros_like(a, dtype=None, **kw):
    if isinstance(a, _np.ndarray) and a.dtype == object and dtype is None:
        return _objfill(a.shape, Q(Fraction(0)))
    return _np.zeros_like(a, dtype=dtype, **kw)


def ones_like(a, dtype=None, **kw):
    if isinstance(a, _np.ndarray) and a.dtype == object and dtype is None:
        return _objfill(a.shape, Q(Fraction(1)))
    return _np.ones_like(a, dtype=dtype, **kw)


def array(obj, dtype=None, *a, **kw):
    if has_sym(obj) or (isinstance(obj, _np.ndarray) and obj.dtype == object
                        and _is_numeric_dtype(dtype)):
        kw.pop('order', None)
        kw.pop('ndmin', None)
        out = _np.array(obj, dtype=object, *a, **kw)
        return out.view(SymArray)
    return _np.array(obj, dtype=_dt(dtype), *a, **kw)


def asarray(obj, dtype=None, *a, **kw):
    if isinstance(obj, _np.ndarray) and obj.dtype == object and \
            _is_numeric_dtype(dtype):
        return _wrap(obj)
    if has_sym(obj):
        kw.pop('order', None)
        return _np.asarray(obj, dtype=object).view(SymArray)
    return _np.asarray(obj, dtype=_dt(dtype), *a, **kw)


def asfortranarray(obj, dtype=None, **kw):
    if isinstance(obj, _np.ndarray) and obj.dtype == object:
        return _wrap(_np.asfortranarray(obj))
    if has_sym(obj):
        return _np.asfortranarray(_np.asarray(obj, dtype=object)).view(
            SymArray)
    return _np.asfortranarray(obj, dtype=dtype, **kw)


def copy(a, *args, **kw):
    if isinstance(a, (Q, Qc)):
        return a
    return _np.copy(a, *args, **kw)


def where(cond, *args):
    if not has_sym(cond) and not any(has_sym(x) for x in args):
        return _np.where(cond, *args)
    cond = _np.asarray(cond, dtype=object)
    if not args:
        # index search: concretise each condition (forks per element)
        conc = _np.empty(cond.shape, dtype=bool)
        for idx in _np.ndindex(*cond.shape):
            conc[idx] = bool(cond[idx])
        return _np.where(conc)
    x, y = args
    cb, xb, yb = _np.broadcast_arrays(cond, _np.asarray(x, dtype=object),
                                      _np.asarray(y, dtype=object))
    out = _np.empty(cb.shape, dtype=object)
    for idx in _np.ndindex(*cb.shape):
        c = cb[idx]
        if isinstance(c, B):
            xv, yv = xb[idx], yb[idx]
            if isinstance(xv, Qc) or isinstance(yv, Qc):
                xv, yv = Qc._co(xv), Qc._co(yv)
                out[idx] = Qc(Q(z3.If(c.t, xv.re.t, yv.re.t)),
                              Q(z3.If(c.t, xv.im.t, yv.im.t)))
            else:
                out[idx] = Q(z3.If(c.t, C.qt(xv), C.qt(yv)))
        else:
            out[idx] = xb[idx] if c else yb[idx]
    if out.ndim == 0:
        return out[()]
    return out.view(SymArray)


def searchsorted(a, v, side='left', sorter=None):
    if not has_sym(a) and not has_sym(v):
        return _np.searchsorted(a, v, side=side, sorter=sorter)
    a = _np.asarray(a, dtype=object)
    scalar = not isinstance(v, _np.ndarray) and not isinstance(v, (list,
                                                                   tuple))
    vv = _np.atleast_1d(_np.asarray(v, dtype=object))
    out = _np.empty(vv.shape, dtype=_np.int64)
    for idx in _np.ndindex(*vv.shape):
        x = vv[idx]
        k = 0
        # left: first i with a[i] >= x ; right: first i with a[i] > x
        while k < a.size:
            cond = (a[k] >= x) if side == 'left' else (a[k] > x)
            if bool(cond):
                break
            k += 1
        out[idx] = k
    return int(out[0]) if scalar else out


def isfinite(x):
    if has_sym(x) or (isinstance(x, _np.ndarray) and x.dtype == object):
        if isinstance(x, _np.ndarray):
            out = _np.empty(x.shape, dtype=object)
            for idx in _np.ndindex(*x.shape):
                out[idx] = _isfinite1(x[idx])
            try:
                return out.astype(bool)
            except Exception:
                return out.view(SymArray)
        return _isfinite1(x)
    return _np.isfinite(x)


def _isfinite1(v):
    if hasattr(v, 'isfinite_'):
        return v.isfinite_()
    if isinstance(v, (Q, Qc)):
        return True
    return bool(_np.isfinite(v))


def isnan(x):
    if has_sym(x) or (isinstance(x, _np.ndarray) and x.dtype == object):
        if isinstance(x, _np.ndarray):
            out = _np.empty(x.shape, dtype=object)
            for idx in _np.ndindex(*x.shape):
                out[idx] = _isnan1(x[idx])
            try:
                return out.astype(bool)
            except Exception:
                return out.view(SymArray)
        return _isnan1(x)
    return _np.isnan(x)


def _isnan1(v):
    if hasattr(v, 'isnan_'):
        return v.isnan_()
    if isinstance(v, (Q, Qc)):
        return False
    return bool(_np.isnan(v))


def real(x):
    if isinstance(x, (Q, Qc)):
        return x.real
    if isinstance(x, _np.ndarray) and x.dtype == object:
        return _elementwise(x, lambda v: getattr(v, 'real', v))
    return _np.real(x)


def imag(x):
    if isinstance(x, (Q, Qc)):
        return x.imag
    if isinstance(x, _np.ndarray) and x.dtype == object:
        return _elementwise(x, lambda v: getattr(v, 'imag', 0))
    return _np.imag(x)


def conj(x):
    if isinstance(x, (Q, Qc)):
        return x.conjugate()
    if isinstance(x, _np.ndarray) and x.dtype == object:
        return _elementwise(
            x, lambda v: v.conjugate() if hasattr(v, 'conjugate') else v)
    return _np.conj(x)


def abs_(x):
    if isinstance(x, (Q, Qc)):
        return abs(x)
    if isinstance(x, _np.ndarray) and x.dtype == object:
        return _elementwise(x, abs)
    return _np.abs(x)


def sqrt(x):
    if isinstance(x, Q):
        return C.sqrt(x)
    if isinstance(x, _np.ndarray) and x.dtype == object:
        return _elementwise(x, lambda v: C.sqrt(v) if isinstance(v, Q)
                            else _np.sqrt(v))
    return _np.sqrt(x)


def _store_out(res, out):
    """numpy's out= contract: write the result into `out`, return `out`."""
    if out is None:
        return res
    if not (isinstance(out, _np.ndarray) and out.dtype == object):
        raise TypeError("symx: out= array cannot hold symbolic values")
    out[...] = res
    return out


def _uf(name, npf):
    def f(x, *a, out=None, **k):
        if isinstance(x, Q):
            return C.ufun_apply(name, x)
        if isinstance(x, _np.ndarray) and x.dtype == object:
            return _store_out(_elementwise(
                x, lambda v: C.ufun_apply(name, v) if isinstance(v, Q)
                else npf(v)), out)
        if out is not None:
            k['out'] = out
        return npf(x, *a, **k)
    f.__name__ = name
    return f


def power(x, y, *a, out=None, **k):
    if has_sym(x) or has_sym(y):
        return _store_out(x**y, out)
    if out is not None:
        if isinstance(out, _np.ndarray) and out.dtype == object:
            return _store_out(_np.power(x, y, *a, **k), out)
        k['out'] = out
    return _np.power(x, y, *a, **k)


def negative(x, *a, out=None, **k):
    if has_sym(x):
        return _store_out(-x, out)
    if out is not None:
        k['out'] = out
    return _np.negative(x, *a, **k)


def empty_like(a, dtype=None, *args, **kw):
    if isinstance(a, _np.ndarray) and a.dtype == object and \
            _is_numeric_dtype(dtype):
        return _np.empty(a.shape, dtype=object).view(SymArray)
    return _np.empty_like(a, dtype=dtype, *args, **kw)


def round_(x, decimals=0, *a, **k):
    if has_sym(x):
        if not State.ROUND_IDENTITY:
            raise TypeError("symx: np.round of a symbolic value")
        return x
    return _np.round(x, decimals, *a, **k)


def sort(a, *args, **kw):
    if not has_sym(a):
        return _np.sort(a, *args, **kw)
    a = _np.asarray(a, dtype=object)
    if a.ndim == 2 and (args == (1,) or kw.get('axis') in (1, -1) or
                        (not args and 'axis' not in kw)):
        rows = [sort(a[i]) for i in range(a.shape[0])]
        r = _np.empty(a.shape, dtype=object)
        for i, row in enumerate(rows):
            r[i, :] = row
        return r.view(SymArray)
    if a.ndim != 1:
        raise TypeError("symx: sort of symbolic nd-array")
    out = list(a)
    # insertion sort; comparisons fork through B.__bool__
    for i in range(1, len(out)):
        j = i
        while j > 0 and bool(out[j] < out[j-1]):
            out[j], out[j-1] = out[j-1], out[j]
            j -= 1
    r = _np.empty(len(out), dtype=object)
    for i, v in enumerate(out):
        r[i] = v
    return r.view(SymArray)


def unique(a, *args, **kw):
    if not has_sym(a) or args or kw:
        return _np.unique(a, *args, **kw)
    srt = sort(_np.asarray(a, dtype=object).ravel())
    out = [srt[0]]
    for v in srt[1:]:
        if not bool(v == out[-1]):
            out.append(v)
    r = _np.empty(len(out), dtype=object)
    for i, v in enumerate(out):
        r[i] = v
    return r.view(SymArray)


def sum_(a, *args, **kw):
    """np.sum of an xarray DataArray over symbolic scalars: xarray's
    default skipna=True semantics (NaN entries are skipped)."""
    if hasattr(a, 'dims') and hasattr(a, 'data') and not args and not kw \
            and getattr(a, 'dtype', None) == object:
        tot = Q(Fraction(0))
        for v in _np.asarray(a.data, dtype=object).flat:
            if isinstance(v, NaNQ):
                continue
            tot = tot + v
        import xarray
        out = _np.empty((), dtype=object)
        out[()] = tot
        return xarray.DataArray(out)
    if isinstance(a, _np.ndarray) and a.dtype == object and not args and \
            not kw and a.size and any(isinstance(v, B) for v in a.flat):
        # counting symbolic Booleans: every element is decided (forks)
        return int(sum(1 for v in a.flat if bool(v)))
    return _np.sum(a, *args, **kw)


def norm(x, *a, **kw):
    kw.pop('check_finite', None)
    if has_sym(x):
        if a or kw.get('ord') is not None or kw.get('axis') is not None:
            raise TypeError("symx: only 2-norm of flattened arrays")
        tot = Q(Fraction(0))
        for v in _np.asarray(x, dtype=object).flat:
            if isinstance(v, Qc):
                tot = tot+v.abs2()
            else:
                v = v if isinstance(v, Q) else Q(v)
                tot = tot+v*v
        return C.sqrt(tot)
    return None


def np_linalg_norm(x, *a, **kw):
    r = norm(x, *a, **kw)
    if r is None:
        return _np.linalg.norm(x, *a, **kw)
    return r


def sp_linalg_norm(x, *a, **kw):
    r = norm(x, *a, **kw)
    if r is None:
        return _sp.linalg.norm(x, *a, **kw)
    return r


def allclose(a, b, rtol=1e-5, atol=1e-8, **kw):
    if has_sym(a) or has_sym(b):
        # numpy's definition, elementwise: |a-b| <= atol + rtol*|b|
        aa, bb = _np.broadcast_arrays(_np.asarray(a, dtype=object),
                                      _np.asarray(b, dtype=object))
        conds = []
        for x, y in zip(aa.flat, bb.flat):
            x = x if isinstance(x, Q) else Q(x)
            y = y if isinstance(y, Q) else Q(y)
            conds.append(abs(x-y) <= Q(atol)+Q(rtol)*abs(y))
        return all_(_np.array(conds, dtype=object))
    return _np.allclose(a, b, rtol=rtol, atol=atol, **kw)


def isclose(a, b, rtol=1e-5, atol=1e-8, equal_nan=False):
    if has_sym(a) or has_sym(b):
        # numpy's definition, elementwise: |a-b| <= atol + rtol*|b|
        aa, bb = _np.broadcast_arrays(_np.asarray(a, dtype=object),
                                      _np.asarray(b, dtype=object))
        out = _np.empty(aa.shape, dtype=object)
        for idx in _np.ndindex(*aa.shape):
            x, y = aa[idx], bb[idx]
            x = x if isinstance(x, Q) else Q(x)
            y = y if isinstance(y, Q) else Q(y)
            out[idx] = abs(x-y) <= Q(atol)+Q(rtol)*abs(y)
        if out.ndim == 0:
            return out.item()
        return out.view(SymArray)
    return _np.isclose(a, b, rtol=rtol, atol=atol, equal_nan=equal_nan)


def any__(a, *args, **kw):
    if isinstance(a, _np.ndarray) and a.dtype == object and not args \
            and not kw:
        return any_(a)
    if isinstance(a, B):
        return bool(a)
    if isinstance(a, (list, tuple)) and has_sym(a):
        return any_(_np.array(a, dtype=object))
    return _np.any(a, *args, **kw)


def all__(a, *args, **kw):
    if isinstance(a, _np.ndarray) and a.dtype == object and not args \
            and not kw:
        return all_(a)
    if isinstance(a, B):
        return bool(a)
    if isinstance(a, (list, tuple)) and has_sym(a):
        return all_(_np.array(a, dtype=object))
    return _np.all(a, *args, **kw)


def vstack(tup, *a, **k):
    r = _np.vstack(tup, *a, **k)
    return _wrap(r)


def _axis0(a, red, kw):
    """reduction along axis 0 of a (nested) list of symbolic arrays."""
    arr = _np.array([_np.asarray(x, dtype=object) for x in a], dtype=object)
    out = _np.empty(arr.shape[1:], dtype=object)
    for idx in _np.ndindex(*arr.shape[1:]):
        out[idx] = red(arr[(slice(None),)+idx])
    return out.view(SymArray)


def maximum_reduce(a, *args, **kw):
    if has_sym(a) and not args and kw == {'axis': 0}:
        return _axis0(a, maximum_reduce, kw)
    if has_sym(a) and not args and not kw:
        vals = list(_np.asarray(a, dtype=object).flat)
        m = vals[0]
        for v in vals[1:]:
            if bool(v > m):
                m = v
        return m
    return _np.max(a, *args, **kw)


def minimum_reduce(a, *args, **kw):
    if has_sym(a) and not args and kw == {'axis': 0}:
        return _axis0(a, minimum_reduce, kw)
    if has_sym(a) and not args and not kw:
        vals = list(_np.asarray(a, dtype=object).flat)
        m = vals[0]
        for v in vals[1:]:
            if bool(v < m):
                m = v
        return m
    return _np.min(a, *args, **kw)


def clip(a, lo, hi, *args, **kw):
    if has_sym(a) or has_sym(lo) or has_sym(hi):
        def c1(v):
            if lo is not None and bool(v < lo):
                return lo
            if hi is not None and bool(v > hi):
                return hi
            return v
        if isinstance(a, _np.ndarray):
            return _elementwise(a, c1)
        return c1(a)
    return _np.clip(a, lo, hi, *args, **kw)


_np_linalg = _Namespace(_np.linalg, dict(norm=np_linalg_norm))

symnp = _Namespace(_np, dict(
    zeros=zeros, ones=ones, empty=empty, full=full, zeros_like=zeros_like,
    ones_like=ones_like, array=array, asarray=asarray,
    asfortranarray=asfortranarray, copy=copy, where=where,
    searchsorted=searchsorted, isfinite=isfinite, isnan=isnan, real=real,
    imag=imag, conj=conj, conjugate=conj, abs=abs_, absolute=abs_,
    sqrt=sqrt, exp=_uf('exp', _np.exp), log=_uf('ln', _np.log),
    log10=_uf('lg', _np.log10), round=round_, around=round_, sort=sort,
    linalg=_np_linalg, allclose=allclose, isclose=isclose, unique=unique,
    vstack=vstack, power=power, negative=negative, empty_like=empty_like,
    sum=sum_, any=any__, all=all__,
    max=maximum_reduce, amax=maximum_reduce, min=minimum_reduce,
    amin=minimum_reduce, clip=clip,
))


# ---------------------------------------------------------------- scipy ---
def _cosdg(x):
    if isinstance(x, Q) and x.c is None:
        return _trig(x)[0]
    return _sp.special.cosdg(float(x) if isinstance(x, Q) else x)


def _sindg(x):
    if isinstance(x, Q) and x.c is None:
        return _trig(x)[1]
    return _sp.special.sindg(float(x) if isinstance(x, Q) else x)


def _trig(x):
    """cos/sin (degrees) of a symbolic angle: a pair (c, s) with c^2+s^2=1
    per base angle; base + k*90 is derived from the base pair."""
    c = C.ctx()
    e = z3.simplify(x.t)
    base, k = e, 0
    if z3.is_add(e) and e.num_args() == 2 and \
            z3.is_rational_value(e.arg(0)):
        q = Fraction(e.arg(0).as_fraction().numerator,
                     e.arg(0).as_fraction().denominator)/90
        if q.denominator == 1:
            base, k = e.arg(1), int(q)
    key = ('trig', base.get_id())
    hit = c.recips.get(key)
    if hit is None:
        co, si = c.fresh('cos'), c.fresh('sin')
        c.keep.append(base)
        c.side.append(co*co+si*si == 1)
        c._feas = None
        c.recips[key] = (base, (co, si))
    else:
        co, si = hit[1]
    co, si = Q(co), Q(si)
    for _ in range(k % 4):
        co, si = -si, co
    return co, si


def angle(z, deg=False):
    """np.angle of a symbolic complex number: a fresh angle theta whose
    cos/sin pair satisfies c*r = re, s*r = im with r = |z|."""
    if not isinstance(z, (Q, Qc)):
        return _np.angle(z, deg=deg)
    if not deg:
        raise TypeError("symx: np.angle only in degrees")
    z = Qc._co(z)
    c = C.ctx()
    r = C.sqrt(z.re*z.re+z.im*z.im)
    th = c.fresh('angle')
    co, si = c.fresh('cos'), c.fresh('sin')
    c.keep.append(th)
    c.side.append(z3.And(co*co+si*si == 1, co*C.qt(r) == C.qt(z.re),
                         si*C.qt(r) == C.qt(z.im), th > -180, th <= 180))
    c._feas = None
    c.recips[('trig', th.get_id())] = (th, (co, si))
    return Q(th)


object.__setattr__(symnp, 'angle', angle)

_sp_linalg = _Namespace(_sp.linalg, dict(norm=sp_linalg_norm))
_sp_special = _Namespace(_sp.special, dict(cosdg=_cosdg, sindg=_sindg))

symsp = _Namespace(_sp, dict(linalg=_sp_linalg, special=_sp_special))


# ---------------------------------------------------------------- numba ---
def _njit(*args, **kwargs):
    """numba.njit -> the undecorated function (py_func semantics); the
    attribute `py_func` exists as on a numba dispatcher."""
    if len(args) == 1 and callable(args[0]) and not kwargs:
        try:
            args[0].py_func = args[0]
        except AttributeError:
            pass
        return args[0]

    def deco(f):
        try:
            f.py_func = f
        except AttributeError:
            pass
        return f
    return deco


symnb = types.SimpleNamespace(njit=_njit, jit=_njit, prange=range)
