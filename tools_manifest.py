#!/usr/bin/env python3
"""Generate MANIFEST.json from the table below and validate it."""
import json, os, sys
HERE = os.path.dirname(os.path.abspath(__file__))

NOTE_COMMON = ("Trusted: z3 5.1 (cvc5 cross-check where noted), CPython 3.12 / NumPy object-array "
               "semantics, the symx proxies (validated by running repo tests on the shadow package), "
               "exact-real arithmetic standing for IEEE-754 unless the check says Float64.")

CHECKS = {
 'C01': dict(
   text="Bounded symbolic execution of the real control code: solve/multigrid/krylov/_terminate/MGParameters run path by path "
        "on symbolic IEEE-754 doubles (tol, ||b||, and one Float64 per distinct field content for its TRUE residual norm, "
        "shared by the code's residual() calls and by nondeterministic models of SciPy's bicgstab/cgs/gcrotmk written from "
        "the SciPy 1.18 sources). Every comparison forks; on every finished path z3 (QF_FP, products abstracted with "
        "counterexample-guided exact refinement) decides: exit 0 => residual of the returned content below tol*||b|| and "
        "abs_error is that residual; zero source => zero field also in the caller's object; PEC and dtype of a supplied "
        "field; failure => exit 1 + message. Exhaustive over paths within maxit<=2 (thorough 3) per configuration.",
   note=NOTE_COMMON+" Numerics (smoothing, restriction, prolongation, residual values) are stubs whose contracts are C02-C04; Krylov recurrence residual == true residual (exact arithmetic); SciPy 1.18 call-back/exit structure; for sslsolver runs tol*||b|| >= 1e-30 (below: known finding).",
   technique="symbolic execution of the real solver control flow with z3 Float64 path conditions (decision-prefix exploration), environment stubs for numerics and SciPy Krylov processes, replay through the public API",
   ref="DESIGN.md §6 C01"),
 'C11': dict(
   text="Bookkeeping core, bounded: the real process_map (all four branches), _multiprocessing.solve (dict and file hand-over), "
        "Simulation._compute/_bcompute/jvec/_dict_get/_load/_data_or_file and io.save/io.load run on a shadow Simulation with symbolic "
        "data/model/vectors under a NONDETERMINISTIC MODEL of the process pool (symx/cfmodel.py: pickled = deep-copied arguments and "
        "results, arbitrary completion order from symbolic completion times, Executor.map in submission order, as_completed in "
        "completion order; tqdm's process_map == list(ex.map)). max_workers is a symbolic integer 1..16 and every permutation of "
        "the <= 4 tasks of the pool run under study is an explored path; emg3d.solve is one uninterpreted function. z3 decides on "
        "every path that synthetic data, every field, info slot, misfit, gradient, J v, J^T w, a repeated compute and a compute after an "
        "in-place model update equal the sequential in-memory run and that the solver is called with the same inputs (incl. the initial guess),"
        " in memory and file-based, with and without tqdm; plus an absolute slot oracle (each source-frequency slot "
        "holds Solve of its own source/frequency/residual). Bit-identity of real floating-point solves across OS processes is "
        "outside the claim.",
   note=NOTE_COMMON+" The verdict is relative to the process-pool contract in symx/cfmodel.py (concurrent.futures documentation) and to the exact-solve idealisation; HDF5 back end is an in-memory store (C17 checks real files); worker-local module state is not modelled. Counterexamples are replayed with a real ProcessPoolExecutor, the completion order forced by task run times.",
   technique="differential symbolic execution of the real dispatch/bookkeeping code under a nondeterministic scheduler model (completion order and worker count are solver variables; decision-prefix exploration of all permutations) with an uninterpreted solver; SMT validity of result equality per path",
   ref="DESIGN.md §6 C11"),
 'C18': dict(
   text="Parser / routing / acceptance core. The list of documented options is re-read from docs/manual/cli.rst on every run. The real "
        "cli.parser.parse_config_file runs on a MODELLED configuration (configparser replaced; getint/getfloat/float(get) return solver "
        "variables, getboolean both truth values, terminal arguments symbolic-or-absent) with one documented key present at a time: z3 "
        "decides that the value arrives unchanged, with its documented type, in the dictionary from which run.py hands it to the API "
        "(simulation kwargs, solver_opts, gridding_opts, noise options, data selection, layered options, files); an undocumented key in "
        "any section raises; terminal > configuration file > default for nproc (symbolic, clipped at 1), layered and five file names over "
        "all present/absent combinations. Concrete parts (labelled): what the real cli.run.simulation passes on for a real configuration "
        "file holding exactly that option is accepted by the real API function that receives it (Simulation, estimate_gridding_opts/"
        "construct_mesh, solve, add_noise, select, extract_1d), and run.py hands the parsed dictionaries verbatim to Simulation/select/"
        "compute for the three functions. Equality of files written by whole CLI and API runs is outside the claim.",
   note=NOTE_COMMON+" Key presence is enumerated (one documented key at a time), not symbolic; list-valued options use a fixed representative text on which the real split/strip parsing runs; argparse (cli/main.py) and combinations of many options are outside.",
   technique="symbolic execution of the real configuration parser over a modelled configparser with solver-variable option values and symbolic terminal arguments (decision-prefix exploration); SMT validity of routed == configured; concrete acceptance runs of the real run.py/API per documented key",
   ref="DESIGN.md §6 C18"),
 'C19': dict(
   text="Extraction and bookkeeping core with the 1D modeller as an uninterpreted function. (A) Model.extract_1d is executed with all "
        "horizontal widths symbolic under a NONDETERMINISTIC ellipse selection (maps.ellipse_indices returns any boolean mask; each of the "
        "2^(nx*ny) masks is an explored path): z3 decides weights >= 0, sum 1, equal to the area fractions of the selected cells (cylinder) "
        "or of their bounding box (prism), zero elsewhere, fallback to the midpoint cell for an empty selection, a laterally invariant "
        "model returned unchanged layer by layer for every mask and mapping (log10/10** axiomatised), the general weighted (log-)mean, and "
        "the returned 1-cell grid; 'midpoint' with symbolic points. (B) a shadow Simulation(layered=True) with a laterally invariant "
        "symbolic model, symbolic observed data whose NaN pattern is symbolic (all 16 patterns are paths) and empymod.bipole as one "
        "uninterpreted function: every triple with finite observed data (all, if none) holds Bipole(layering, own source/receiver/"
        "frequency), others NaN, for midpoint/source/receiver/prism/cylinder; the finite-difference gradient summed per layer equals the "
        "misfit change under a uniform layer perturbation times the mapping's chain rule. Agreement of empymod's numerics with a reference "
        "is outside the claim.",
   note=NOTE_COMMON+" empymod.bipole is an uninterpreted function (arguments matched syntactically after a sound normalisation of inverse pairs/reciprocals); the ellipse geometry is replaced by an arbitrary mask; grids <= 3x3 horizontal cells; exact rational widths in (B).",
   technique="symbolic execution of the real extraction/layered code with path exploration over a nondeterministic selection mask and a symbolic NaN pattern; uninterpreted 1D modeller; SMT validity (NRA with reciprocal variables, UF axioms) per path; replay against real empymod",
   ref="DESIGN.md §6 C19"),
 'C16': dict(
   text="One-direction core, bounded: the real meshes.origin_and_widths and meshes._stretch (the routine construct_mesh calls per direction) are "
        "executed path by path with the grid centre, the survey domain or distances, the minimum cell width, both wavelengths and the maximum "
        "buffer as symbolic reals; skin_depth/cell_width/wavelength (float power laws) are stubs returning those symbols; the stretching pair "
        "and the cell-number list are concrete and small (every comparison of the search forks: 2000-3000 paths per case). On every path that "
        "returns a mesh z3 decides (linear real arithmetic): cell count in the permitted list, all widths > 0, the mesh covers the survey domain "
        "plus the wavelength-based buffer capped by max_buffer (both buffer definitions), neighbouring widths within the larger stretching "
        "factor (to rounding of alpha**k), centre on a node / cell centre as requested, nodes of a three-node vector inside the domain are "
        "mesh nodes. Also: _seasurface on the paths that add no cells (sea surface is a node, to the code's own tolerance, or the warning "
        "is issued) and good_mg_cell_nr against its specification in several call orders (concrete). _seasurface paths that add cells "
        "(brentq), realistic stretching pairs and cell-number lists, estimate_gridding_opts, construct_mesh routing and the completeness "
        "of the search (error only if no mesh exists) are outside the claim.",
   note=NOTE_COMMON+" Bounds: stretching pairs with <= 4 candidates (1.0..1.004), cell numbers subsets of {4,6,8}; the survey domain contains the centre; exact reals for the code's comparisons.",
   technique="symbolic execution of the real gridding search with forking comparisons (decision-prefix exploration) over symbolic reals; SMT validity (LRA) of the postconditions per returned path; replay on the real function with inputs reconstructed from the model",
   ref="DESIGN.md §6 C16"),
 'C14': dict(
   text="Symbolic proof for all real values: the six Map* classes, VolumeModel and Model's validation are executed on z3 terms with "
        "exp/ln/log10/10**x as uninterpreted functions constrained by their inverse-pair axioms; z3 decides backward(forward(s)) = s, "
        "forward(backward(x)) = x, backward > 0, derivative_chain multiplies in place by exactly d sigma/dx (oracle: a symbolic "
        "differentiator over the solver terms), and that VolumeModel's eta/zeta under every mapping equal those of the plain "
        "conductivity model (all anisotropy cases, with/without eps_r, mu_r). Validation: Model construction and every property "
        "setter are explored path by path on symbolic IEEE-754 doubles (exact fpDiv for Resistivity): accepted <=> conductivity / "
        "mu_r / eps_r positive and finite. The property list that "
        "estimate_gridding_opts hands to the automatic gridding is the mapped minimum conductivity of the source cell and the "
        "boundary faces for every ordering of symbolic cell values. Session 2: the four log maps are validated with an abstract IEEE backward function (NaN, infinite ends, sign); results of forward/backward held two at a time are independent.",
   note=NOTE_COMMON+" The transcendental functions are environment stubs constrained only by the listed axioms; floating-point accuracy over twelve decades and the IEEE behaviour of the four log maps are outside.",
   technique="symbolic execution on z3 Real terms with axiomatised uninterpreted functions (UF+NRA validity) and Float64 path exploration for input validation",
   ref="DESIGN.md §6 C14"),
 'C15': dict(
   text="(A) maps._volume_average_weights is executed with the node coordinates of BOTH grids symbolic; the explorer enumerates every "
        "interleaving of the two node vectors including coinciding nodes (each a path) and z3 decides per path a complete 1-D "
        "specification: weights > 0, tiling of the output hull, each piece inside its output cell and inside its input cell or "
        "nearest-filled. (B) interp_volume_average, interpolate(method='volume', log), _interp_volume_average_adj and "
        "Model.interpolate_to_grid run on concrete dyadic grid pairs (equal, nested, finer, shifted, overhanging, inside, "
        "interleaved) with all cell values symbolic: kernel == independent overlap oracle, conservation, range, identity, "
        "forward == (adjoint)^T per component without cross-talk, log mode = 10**(average of log10) with rho/sigma symmetry "
        "(log10/10** axiomatised), log mode chosen from the mapping and explicit log= honoured. Session 2: a pair whose output cell centres lie outside the input grid; Model.interpolate_to_grid after in-place updates of the values.",
   note=NOTE_COMMON+" 3-D grids are concrete (10 pairs); the 1-D routine is fully symbolic up to 4x3 cells (thorough 4x4). discretize's volume_average is probed with unit vectors to obtain the adjoint matrix.",
   technique="symbolic execution with forking comparisons over symbolic node coordinates (every interleaving = one path) + LIN/UF validity queries; concrete-grid symbolic-value identities",
   ref="DESIGN.md §6 C15"),
 'C09': dict(
   text="fields._point_vector is executed with symbolic position (anywhere in the second to second-last cell), symbolic azimuth/"
        "elevation (cos/sin pair with c^2+s^2=1) and a symbolic field on four concrete stretched grids; its cell search forks on "
        "comparisons so every cell class per component is a path; per path z3 decides <point_vector, f> == sum_c rot_c * "
        "trilinear_c(f)(pos) for all positions/orientations/fields (the transpose of linear sampling), component sums = unit "
        "direction, support <= one cell's edges. Magnetic: H sampled (trilinear on faces of get_magnetic_field(E), real "
        "_edge_curl_factor kernel on symbolic E) == <E, magnetic point vector> as linear forms, frequency and Laplace domain. "
        "get_receiver's NaN mask explored with a symbolic position: NaN iff outside [nodes[1], nodes[-2]]^3.",
   note=NOTE_COMMON+" 'Linear sampling' is the checker's trilinear interpolant, validated against the real get_receiver(method='linear') at solver witnesses. Magnetic position/orientation concrete (discretize is compiled), mu_r=1. Reciprocity is a corollary (C02 symmetry + transposes + exact solve), not checked.",
   technique="symbolic execution with forking cell search (path = cell class) + SMT validity of polynomial identities in position/angles/field; linear-form comparison for the magnetic transpose",
   ref="DESIGN.md §6 C09"),
 'C10': dict(
   text="fields._point_vector (position anywhere in the grid) and fields._dipole_vector (first electrode symbolic in a cell, second "
        "= first + t*d, t symbolic, d from a list of axis-aligned and Pythagorean directions; also three-electrode wires) are "
        "executed symbolically; clipping/sorting/min/max comparisons fork so each path is one way the segment crosses the cells; "
        "per path z3 decides: components sum to the electrode difference / unit direction, the code's re-normalisation guard "
        "cannot fire, no segment of a wire is dropped, only edges of bounding-box cells are non-zero. get_source_field: field "
        "== vector*strength*(-s mu0) with symbolic strength (None/frequency/Laplace), repeated calls on one Source instance, wire "
        "= sum of segments. Conversions for ALL dipoles: point_to_dipole(dipole_to_point(d)) = d; square loop closed, square of "
        "that area, perpendicular sides, right-handed normal = area*direction, centred (NRA with axiomatised trigonometry). Session 2: point-source support (every non-zero entry lies in a tri-linear hat function that contains the point; the extrapolation stencil of the outermost half cell is allowed and stated).",
   note=NOTE_COMMON+" np.round(.,9) identity; Euclidean norm of vectors parallel to the known direction computed exactly (parallelism checked per call); dipoles in the outermost node plane excluded; dipole span bounded (quick: <= 2 nodes axis-aligned, 1 cell oblique).",
   technique="symbolic execution with forking clipping comparisons (path = crossing class) + NRA validity queries; axiomatised cos/sin/angle for the conversions",
   ref="DESIGN.md §6 C10"),
 'C13': dict(
   text="Survey objects are built (shadow code, xarray Datasets over object arrays) with observed data, noise floor, relative error, "
        "explicit std and the random draws of random_noise as solver variables, in scalar / per-source / per-receiver / "
        "per-frequency / full-array forms. z3 decides: std_i^2 = nf_i^2 + (re_i|d_i|)^2 >= 0 with explicit std taking priority; "
        "after add_noise (all noise types, amplitude and offset cuts; every datum's cut is a fork), the std getter, copy, "
        "to_dict/from_dict and select every entry of noise floor / relative error / std equals its value before and arrays "
        "handed out earlier are untouched; copies share nothing; select returns exactly the chosen datum with its settings; "
        "explicit re-assignment (array -> scalar -> None -> array) is honoured; Simulation.misfit = 1/2 sum_finite |r|^2/std^2 "
        "(NaN datum skipped) and uses the new settings after re-assignment + clean. Session 2: a survey re-used by a NEW simulation after a noise-model change or after gaps in the observed data were filled/opened must give the misfit of the current settings.",
   note=NOTE_COMMON+" Survey shape 2x2x1 (thorough also 1x1x1, 2x1x2); |z| and sqrt as fresh variables with s^2=x; xarray's sum(skipna) modelled for the NaN datum; misfit/clean run on a duck-typed carrier of the survey.",
   technique="symbolic execution of Survey/misfit code on xarray-over-solver-terms with forking data cuts + SMT validity of equalities (LIN/NRA)",
   ref="DESIGN.md §6 C13"),
 'C17': dict(
   text="The save-side and load-side transformation layers of emg3d.io (_dict_serialize/_dict_deserialize/_nonetype_to_none, "
        "_dict_flatten/_dict_unflatten, _dict_dearray_decomp/_dict_array_comp) are executed on nested dicts (6 structures, "
        "depth <= 3, all value kinds) whose KEYS are symbolic z3 strings, with np.savez/np.load, json and h5py as contract stubs; "
        "per path z3 decides that every key/value of the input is found in the output. Held for all keys of length 1..4 free "
        "of '>' and '_' (split/contains resolved by string lemmas proven by z3); a relaxed discovery run lets the solver "
        "construct keys that break the round trip (found: '>' in npz keys; also empty nested dicts) which are replayed through "
        "real files and listed as known findings. Field/Model to_dict/from_dict keep symbolic content; one concrete composite "
        "(model, survey with mixed Tx/Rx, NaN, array noise, explicit std, field, nested dict) is saved/loaded in h5/npz/json and "
        "all six conversions (objects, dtypes, order).",
   note=NOTE_COMMON+" Back ends are stubs (identity contracts); the HDF5 layer and Survey/Simulation (de)serialisation are only covered by the concrete file round trip; key precondition (no '>' / '_') is stronger than needed for emg3d's own keys, which are run concretely.",
   technique="symbolic execution with z3 String keys (forking dict look-ups / split / contains) + SMT validity of key equalities; solver-constructed counterexample keys replayed through real files",
   ref="DESIGN.md §6 C17"),
 'C20': dict(
   text="The Fourier bookkeeping properties, interpolate() and freq2time() are executed with symbolic required frequencies, band "
        "edges, explicit input frequencies and a symbolic complex spectrum; every ordering of frequencies relative to fmin/fmax "
        "(including coincidences) is a path; per path z3 decides: three disjoint exhaustive groups {f<fmin, fmin<=f<=fmax, "
        "f>fmax}, computed frequencies inside the band, zero above, a datum is stored only at a required frequency equal to "
        "its own, pass-through where computed == required, the extrapolation is anchored at (1e-100 Hz, Re d[0]) plus exactly "
        "the computed data, and the reference transform receives the filled spectrum at the required frequencies. Session 2: the Fourier object is built through its real __init__ (empymod.utils.check_time is the stub); histories on one instance: a second interpolate() does not change the first result, signal/Fourier arguments changed through setters reach the transform, slots above a lowered fmax are zero.",
   note=NOTE_COMMON+" InterpolatedUnivariateSpline (interpolating: passes through its data), PchipInterpolator and empymod's transform are contract stubs whose INPUTS are checked; monotonic decay of the extrapolated imaginary part and numerical equality with the transform are outside.",
   technique="symbolic execution with forking comparisons of symbolic frequencies (path = ordering class) + LIA/LRA validity queries; environment stubs for spline/PCHIP/transform",
   ref="DESIGN.md §6 C20"),
 'C07': dict(
   text="A real (shadow) Simulation object is driven through compute, misfit and gradient with symbolic observed data, symbolic "
        "model (all anisotropy cases, several mappings) and emg3d.solve replaced by ONE uninterpreted function (PEC contract), "
        "so the forward field E and back-propagated field lambda are arbitrary symbolic complex fields. z3 decides the two "
        "code-level identities the adjoint-state theorem needs: (i) the adjoint source built by _bcompute/_get_rfield is "
        "c0*sum_r conj(w_r r_r)*(unit point vector of receiver r) in survey order, with source-relative receivers, magnetic "
        "receivers and a NaN datum skipped; (ii) every entry of the returned gradient equals -Re[(1/c0) lambda^T (dA/dp) E] "
        "with dA/dsigma of the C02 operator, the anisotropy collection and the mapping's chain rule (symbolic differentiator).",
   note=NOTE_COMMON+" The adjoint-state theorem itself, exact solves, operator symmetry (C02), P = V^T (C09) and the misfit formula (C13) are assumed/stated; frequency domain, gridding='same', linear receivers, 4x4x3 grid.",
   technique="symbolic execution of the real Simulation call chain with an uninterpreted solver function + SMT validity of polynomial identities entry by entry; FD replay on the real package",
   ref="DESIGN.md §6 C07"),
 'C08': dict(
   text="jvec and jtvec are executed on a real (shadow) Simulation with symbolic model, data and vectors (uninterpreted solver): "
        "z3 decides (a) the source field jvec hands to the solver equals -(dA/dp . v) E on every edge (dA/dsigma of the C02 "
        "operator, chain rule, HTI/VTI/triaxial stacking) and J v is the receiver sampling of that solve stored per "
        "source/receiver/frequency; (b) jtvec(w) satisfies C07's adjoint-source and gradient-assembly identities with w in "
        "place of the weighted residual (so J^T = G^T A^-T P^T is the exact adjoint of J = P A^-1 G given A = A^T and P = V^T); "
        "(c) jtvec(residual*weights) equals the gradient entry by entry. Session 2: J v with gridding='dict' (two sources on two grids of equal shape): the sensitivity source of each source equals -(dA/dp . V v)E with v volume-averaged to ITS OWN grid (independent overlap oracle).",
   note=NOTE_COMMON+" Adjointness is derived from (a)+(b)+C02 symmetry+C09 transposes (mathematics); for gridding != 'same' the extra factor is the volume-averaging pair of C15; discretize's edge inner-product derivative is used as diag(u)@A (checked numerically per call).",
   technique="symbolic execution of jvec/jtvec on a real Simulation with an uninterpreted solver + SMT validity of polynomial identities; adjoint/FD replay on the real package",
   ref="DESIGN.md §6 C08"),
 'C12': dict(
   text="Differential symbolic execution on a real (shadow) Simulation: every operation sequence up to length 2 (thorough 3) over "
        "{compute, misfit, gradient, jvec, jtvec, get_efield, clean(computed|keepresults|all), copy, copy(results), "
        "to_dict/from_dict, model update + clean, copy-then-mutate-the-copy, to_file hand-over} is executed with symbolic data, "
        "model and vectors and with emg3d.solve as ONE uninterpreted function of (model values, source-field values, tolerance); "
        "afterwards z3 decides, entry by entry, that synthetic data, misfit and gradient equal those of a freshly built "
        "simulation sharing the same uninterpreted function (so stale caches, aliasing between copies and a wrong tolerance "
        "hand-over are all visible for EVERY numeric content); copies must carry the computed state. Session 2: the RETURN VALUES of a final jvec/jtvec are compared with the same call on a fresh simulation; two-source sequences cover partially computed simulations.",
   note=NOTE_COMMON+" Histories are enumerated (246 quick / ~1600 thorough), the numeric content is symbolic; exact-solve idealisation (independent of initial guess); real file I/O and file-based execution are outside (to_file is modelled by its _what_to_file/to_dict hand-over).",
   technique="differential symbolic execution of operation histories with an uninterpreted solver function + SMT validity of result equalities; replay of failing histories on the real package",
   ref="DESIGN.md §6 C12"),
 'C05': dict(
   text="Bounded symbolic execution with the grid shape as z3 integers: MGParameters._max_level, _current_sc_dir, _current_lr_dir, "
        "smoothing dispatch, multigrid recursion and _terminate run with numerics stubbed; the explorer forks on the code's "
        "own parity/size tests so each path is a class of shapes; per path the event trace (smoothing kernel, restriction "
        "pattern, prolongation, per level) is compared with a textbook V/W/F recursion and LIA queries show: halved "
        "directions even and >2, never <2 cells, no line relaxation along 2 cells, bottom level == level implied by shape, "
        "pattern and user limit == header value, sc/lr digits advance once per fine-grid cycle (also across preconditioner "
        "calls). Helpers: unbounded n>=2. Whole cycle: all shapes with 2<=n<=16 (thorough 40; single direction 1024).",
   note=NOTE_COMMON+" restriction's shape contract is C04(iv); residual norms are chosen so that no early exit occurs (exits are C01); the reference recursion is 40 lines written from the property text and matches the docstring figure.",
   technique="symbolic execution with z3 Int shapes (decision-prefix path exploration = shape classes) + LIA validity queries; trace comparison against a textbook recursion; replay on the real solver module",
   ref="DESIGN.md §6 C05"),
 'C04': dict(
   text="Bounded symbolic proof of the source: solver.restriction (core.restrict, core.restrict_weights, grid and model "
        "coarsening) and solver.prolongation (RegularGridProlongator) run on z3 Real terms with all widths, origin, model "
        "and both fields symbolic; per (pattern 0..6, fine shape) z3 decides the bilinear identity <c,Rr> = <Pc,r> (hence "
        "R = P^T entrywise on interior edges), weight row-sums = 1, every distinct bilinear weight >= 0, prolongation adds "
        "and never writes boundary edges, coarse nodes = every second fine node, coarse eta/zeta = sum of children with "
        "aliasing kept. All values; bounded in shape (quick coarsened dirs {4,6} x others {2,3}; thorough {4,6,8} x {2..5}).",
   note=NOTE_COMMON+" Precondition from the code's invariant: the coarse correction has zero tangential boundary values. Any fork in searchsorted comparisons (not decided by h>0) aborts as inconclusive.",
   technique="symbolic execution of the real transfer operators on z3 terms + SMT validity of a bilinear rational identity (reciprocal-variable encoding), NRA queries for weight signs",
   ref="DESIGN.md §6 C04"),
 'C03': dict(
   text="Bounded symbolic proof of the source: the four smoother kernels run on z3 Real terms with core.solve replaced by a "
        "recording stub (fresh unknowns x, contract A_loc x = rhs). For every relaxed block z3 decides that A_loc x - rhs is "
        "identically the C02 reference operator's residual on the block's edges of the updated field (all widths, model, "
        "field, source, x). core.solve is proved exact per n (1..26 thorough) by cut-and-invert: in-place updates are inverted "
        "so that A x = b is a polynomial identity in the final variables. Plus: A_loc independent of field/source, rhs "
        "affine, boundary never written, every interior edge relaxed, smoothing() dispatch on two-cell grids. Session 2: a zero-source probe with the field on the first/last grid line (local right-hand sides exactly zero) and detection of data-dependent branches in the kernels (reported inconclusive, never held).",
   note=NOTE_COMMON+" Fixed-point / last-block-exact clauses are derived mathematically from (local system == operator rows for all x) + (solve exact) + non-singularity. Pivots assumed non-zero (code's documented precondition).",
   technique="symbolic execution of the real kernels on z3 terms with a recording stub for the inner solver + cut-and-invert encoding of the LDL^T band solver; SMT validity of polynomial identities",
   ref="DESIGN.md §6 C03"),
 'C02': dict(
   text="Bounded symbolic proof of the source: core.amat_x (py_func semantics), VolumeModel, solver.residual and the "
        "Krylov matvec are executed on z3 Real terms with ALL widths, model entries and field entries symbolic; for every "
        "grid shape in the bound z3 decides (unsat of the negation) that each interior-edge output is identically the "
        "checker-assembled curl^T M_f curl + M_e operator, plus symmetry, gradient null-space and boundary rows. Holds for "
        "all values; bounded in grid shape (quick {2,3,4}^3, thorough {2..5}^3 + extremes). Session 2: solve() is run through a history on ONE Model object (in-place index assignment, setter, Laplace/frequency of equal |f|, other frequency) and the coefficients handed to the kernels must equal a fresh VolumeModel of a fresh Model; VolumeModel is constructed twice on a real BaseMesh.",
   note=NOTE_COMMON+" Shape-bound argument: kernel distinguishes only first/interior/last index per direction. Jit-vs-source agreement is validated numerically, not proved.",
   technique="symbolic execution of the real Python source on z3 terms (shadow package) + SMT validity of polynomial identities (z3 NRA), counterexamples replayed on the jitted kernel",
   ref="DESIGN.md §6 C02"),
}

NA = {
 'C06': "convergence factors of full cycles on 8^3..64^3 grids are floating-point magnitudes; no symbolic encoding within reach of z3/cvc5 (DESIGN §7)",
}
PENDING = "check not built yet in this round (planned, see DESIGN.md §6); listed here until its harness lands"
ALL = [f"C{i:02d}" for i in range(1, 21)]

def main():
    checks = []
    for pid in ALL:
        if pid in CHECKS:
            c = CHECKS[pid]
            checks.append(dict(
                property_id=pid,
                quick_cmd=f"./check {pid} --tier quick",
                thorough_cmd=f"./check {pid} --tier thorough",
                evidence_file=f"/verif/evidence/{pid}.json",
                replay_cmd_template=f"./check {pid} --replay {{path}}",
                engine="symx",
                level_claimed=dict(category="other", text=c['text'], design_ref=c['ref']),
                level_note=c['note'], technique=c['technique']))
    na = []
    for pid in ALL:
        if pid in CHECKS: continue
        na.append(dict(property_id=pid, reason=NA.get(pid, PENDING)))
    man = dict(
        version=1,
        setup_cmd="./setup.sh",
        hooks=dict(guard="EMG3D_VERIF", enable="none needed: the shadow loader (symx/shadow.py) re-reads /repo/emg3d on every run and installs stubs/traces by assigning module globals of the shadow copy; the guard name is reserved and unused",
                   baseline_off_cmd="cd /repo && /venv/bin/python -m pytest -ra -q -p no:cacheprovider --timeout=900 --continue-on-collection-errors",
                   source_commits=[], add_only=True),
        engines=[dict(name="symx", path="/verif/symx", serves_properties=sorted(CHECKS),
                      kind_free_text="symbolic execution of emg3d's own source (import-rewritten shadow package) on z3 terms; path exploration by decision-prefix replay; SMT queries via z3 (cvc5 cross-check)")],
        checks=checks,
        not_applicable=na,
        notes="Exit codes: 0 held within bounds, 1 VIOLATION (replayed on the real package), 2 inconclusive/harness error (never reported as held). Known findings: /verif/known_findings.json.")
    with open(os.path.join(HERE, 'MANIFEST.json'), 'w') as f:
        json.dump(man, f, indent=1)
    try:
        import jsonschema
        jsonschema.validate(man, json.load(open('/root/.vp/MANIFEST.schema.json')))
        print("MANIFEST valid;", len(checks), "checks,", len(na), "n/a")
    except ImportError:
        print("jsonschema missing; not validated")

if __name__ == '__main__':
    main()
