#!/bin/bash
# tools/try_seed.sh <seed-name> <check-id> [tier] -- run one check against one seeded change in an
# isolated worktree (never touches /repo's working tree); prints rc and VIOLATION lines
name=$1; id=$2; tier=${3:-quick}
wt=/tmp/ts_${name}_$id; out=/tmp/tsout_${name}_$id
rm -rf $wt $out; mkdir -p $out
git -C /repo worktree add -q --detach $wt HEAD || exit 9
if ! git -C $wt apply /verif/seeded/$name/patch.diff 2>/dev/null; then
  git -C $wt apply --3way /verif/seeded/$name/patch.diff 2>/dev/null || { echo "$name: patch does not apply"; git -C /repo worktree remove --force $wt; exit 8; }
fi
cd /verif
EMG3D_REPO=$wt PYTHONPATH=$wt VERIF_OUT=$out NUMBA_CACHE_DIR=/tmp/nbc_ts_$name timeout 3000 ./check $id --tier $tier > $out/log 2>&1; rc=$?
echo -e "$name\t$id\trc=$rc\tviolations=$(grep -c '^VIOLATION' $out/log)"
grep -A1 '^VIOLATION' $out/log | grep -v '^--' | cut -c1-220 | head -6
grep -E '^(HARNESS-ERROR|INCONCLUSIVE|VACUOUS)' $out/log | cut -c1-300 | head -4
tail -1 $out/log | cut -c1-200
git -C /repo worktree remove --force $wt; rm -rf $out /tmp/nbc_ts_$name
