"""Print the DESIGN §14 cost table from the committed evidence files."""
import glob
import json
import os

here = os.path.dirname(os.path.dirname(os.path.abspath(__file__)))
print("| check | SMT queries/obligations (quick) | distinct non-trivial | "
      "solver s | wall s (16 cores) |")
print("|---|---|---|---|---|")
for f in sorted(glob.glob(os.path.join(here, 'evidence', 'C*.json'))):
    e = json.load(open(f))
    c = e['coverage']
    print(f"| {e['property_id']} | {c.get('evaluations')} | "
          f"{c.get('distinct_nontrivial')} | "
          f"{round(c.get('solver_time_s', 0), 1)} | "
          f"{round(e.get('wall_s', 0), 1)} |")
