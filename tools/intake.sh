#!/bin/bash
# [ROUND=3] tools/intake.sh <pid> [checks...] -- copy /tmp/seed<round>_<pid>/m{1,2,3} to seeded/<pid>_m{3(round-1)+1..},
# confirm each independently (demo clean/mutant, full test-suite) and run the given checks
# (default: the property's own) against each in an isolated worktree.  Results: /tmp/intake_<pid>.log
pid=$1; shift; checks=${@:-$pid}
round=${ROUND:-2}; off=$(( (round-1)*3 ))
cd /verif
for k in 1 2 3; do
  src=/tmp/seed${round}_$pid/m$k; n=$((k+off)); name=${pid}_m$n
  [ -f $src/patch.diff ] || { echo "$name: no patch"; continue; }
  mkdir -p seeded/$name; cp $src/patch.diff $src/demo.py $src/meta.json seeded/$name/ 2>/dev/null
  (
    tools/confirm_mutant.sh /verif/seeded/$name $name > /tmp/intake_confirm_$name.log 2>&1
    wt=/tmp/mx_$name; out=/tmp/mxout_$name; rm -rf $wt $out; mkdir -p $out
    git -C /repo worktree add -q --detach $wt HEAD
    if git -C $wt apply /verif/seeded/$name/patch.diff 2>/dev/null; then
      for id in $checks; do
        EMG3D_REPO=$wt PYTHONPATH=$wt VERIF_OUT=$out NUMBA_CACHE_DIR=/tmp/nbc_mx_$name timeout 3000 ./check $id --tier quick > $out/$id.log 2>&1; rc=$?
        echo -e "$name\t$id\trc=$rc\tviolations=$(grep -c '^VIOLATION' $out/$id.log)\t$(grep -A1 '^VIOLATION' $out/$id.log | sed -n 2p | cut -c1-160)"
        cp $out/$id.log /tmp/intake_${name}_$id.log
      done
    else echo -e "$name\t-\tpatch-does-not-apply"; fi
    git -C /repo worktree remove --force $wt; rm -rf $out /tmp/nbc_mx_$name
    tail -1 /tmp/intake_confirm_$name.log
  ) >> /tmp/intake_$pid.log 2>&1 &
done
wait
cat /tmp/intake_$pid.log
