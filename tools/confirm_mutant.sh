#!/bin/bash
# tools/confirm_mutant.sh <mutant-dir with patch.diff demo.py meta.json> <name>
# Independent confirmation in a scratch worktree of /repo HEAD:
#  demo passes clean, patch applies, demo fails with patch, full test-suite passes with patch.
src=$1; name=$2
wt=/tmp/confirm_$name
out=/tmp/confirm_$name.json
rm -rf $wt; git -C /repo worktree prune
git -C /repo worktree add -q --detach $wt HEAD || exit 9
cd $wt
export NUMBA_CACHE_DIR=/tmp/nbc_confirm_$name
/venv/bin/python $src/demo.py > /tmp/confirm_$name.clean.log 2>&1; clean_rc=$?
if git apply --check $src/patch.diff 2>/dev/null; then applies=1; git apply $src/patch.diff; else applies=0; fi
mut_rc=-1; tests="not run"; 
if [ $applies = 1 ]; then
  /venv/bin/python $src/demo.py > /tmp/confirm_$name.mut.log 2>&1; mut_rc=$?
  tests=$(timeout 2400 /venv/bin/python -m pytest -q -p no:cacheprovider --timeout=900 -x tests/ --deselect tests/test_cli.py::test_main --deselect tests/test_cli.py::test_main2 2>&1 | tail -1)
fi
cd /; git -C /repo worktree remove --force $wt; rm -rf $NUMBA_CACHE_DIR
printf '{"name":"%s","demo_clean_rc":%s,"patch_applies":%s,"demo_mutant_rc":%s,"tests":"%s"}\n' "$name" "$clean_rc" "$applies" "$mut_rc" "$tests" > $out
cat $out
