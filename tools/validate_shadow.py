#!/usr/bin/env python3
"""Validation (DESIGN 5.4 a): run a subset of the repository's OWN tests
against the shadow package (emg3d's source with numpy/scipy/numba redirected
to the symx proxies) on their concrete inputs: the proxies must be invisible.
Usage: .venv/bin/python tools/validate_shadow.py [pytest args]
Exit code = pytest's."""
import os
import sys
import shutil
import tempfile
HERE = os.path.dirname(os.path.dirname(os.path.abspath(__file__)))
sys.path.insert(0, HERE)
from symx import shadow                                     # noqa: E402

REPO = os.environ.get('EMG3D_REPO', '/repo')
TESTS = (os.environ.get('SHADOW_TESTS') or
         'test_core.py test_maps.py test_fields.py test_electrodes.py '
         'test_models.py test_solver.py test_meshes.py test_surveys.py'
         ).split()


def main():
    import pytest
    E = shadow.load()
    import importlib
    # alias: `import emg3d` inside the tests resolves to the shadow package
    sys.modules['emg3d'] = E
    for name, mod in list(sys.modules.items()):
        if name.startswith('emg3d_sym.'):
            sys.modules['emg3d.'+name[len('emg3d_sym.'):]] = mod
    tmp = tempfile.mkdtemp(prefix='shadowtests_')
    try:
        for t in TESTS:
            shutil.copy(os.path.join(REPO, 'tests', t), tmp)
        if os.path.isdir(os.path.join(REPO, 'tests', 'data')):
            os.symlink(os.path.join(REPO, 'tests', 'data'),
                       os.path.join(tmp, 'data'))
        for extra in ('alternatives.py', '__init__.py', 'helpers.py'):
            src = os.path.join(REPO, 'tests', extra)
            if os.path.exists(src):
                shutil.copy(src, tmp)
        args = ['-q', '-p', 'no:cacheprovider', '-x', '--timeout=3000',
                '-W', 'ignore'] + sys.argv[1:] + [tmp]
        return pytest.main(args)
    finally:
        shutil.rmtree(tmp, ignore_errors=True)


if __name__ == '__main__':
    sys.exit(main())
