#!/bin/bash
# tools/try_mutant.sh <patch.diff> <property-id> [tier]  -- apply, run check, always revert
patch=$1; pid=$2; tier=${3:-quick}
cd /repo || exit 9
if ! git diff --quiet; then echo "/repo dirty; abort"; exit 9; fi
if ! git apply --check "$patch" 2>/dev/null; then echo "PATCH DOES NOT APPLY: $patch"; exit 8; fi
git apply "$patch"
cd /verif && timeout 3000 ./check "$pid" --tier "$tier" > /tmp/try_$pid.log 2>&1; rc=$?
cd /repo && git checkout -- . 
echo "rc=$rc"; grep -E "^(VIOLATION|KNOWN-FINDING|HARNESS-ERROR|INCONCLUSIVE|VACUOUS|\[C)" /tmp/try_$pid.log | head -8
