#!/usr/bin/env python3
"""Markdown table of seeded changes (round given by suffix range) with the
checks that catch them, from seeded/*/meta.json and seeded/RESULTS.tsv."""
import os, json, sys, collections
HERE = os.path.dirname(os.path.dirname(os.path.abspath(__file__)))
lo, hi = (int(sys.argv[1]), int(sys.argv[2])) if len(sys.argv) > 2 else (4, 6)
res = collections.defaultdict(list)
for line in open(os.path.join(HERE, 'seeded', 'RESULTS.tsv')):
    p = line.rstrip('\n').split('\t')
    if len(p) >= 3:
        res[p[0]].append((p[1], p[2], p[3] if len(p) > 3 else ''))
notes = json.load(open(os.path.join(HERE, 'seeded', 'NOTES.json')))
print("| seed | change (sub-agent's summary) | needs | caught by |")
print("|------|------------------------------|-------|-----------|")
def short(t, n):
    t = ' '.join(str(t).split()).replace('|', '/')
    return t if len(t) <= n else t[:n]+'…'
for name in sorted(os.listdir(os.path.join(HERE, 'seeded'))):
    d = os.path.join(HERE, 'seeded', name)
    if not os.path.isdir(d):
        continue
    k = int(name.split('_m')[1])
    if not lo <= k <= hi:
        continue
    meta = json.load(open(os.path.join(d, 'meta.json')))
    caught = [c for c, rc, _ in res.get(name, []) if rc == 'rc=1']
    other = [f"{c}:{rc}" for c, rc, _ in res.get(name, []) if rc != 'rc=1']
    if name in notes:
        cb = notes[name]
    elif caught:
        cb = ', '.join(caught)
    elif any('does-not-apply' in rc for _, rc, _ in res.get(name, [])) or \
            any(c == '-' for c, _, _ in res.get(name, [])):
        cb = 'n/a (patch context removed by a later fix)'
    else:
        cb = '**missed** ('+', '.join(other)+')'
    print(f"| {name} | {short(meta.get('summary', ''), 230)} | "
          f"{short(meta.get('needs', ''), 170)} | {cb} |")
