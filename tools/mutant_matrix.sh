#!/bin/bash
# tools/mutant_matrix.sh [jobs]  -- run every seeded mutant against its designated checks,
# each in its own scratch worktree of /repo HEAD (isolated: EMG3D_REPO, PYTHONPATH, VERIF_OUT),
# and write /verif/seeded/RESULTS.tsv.  /repo itself is never modified.
jobs=${1:-4}
cd /verif
run_one() {
  name=$1; shift
  wt=/tmp/mx_$name; out=/tmp/mxout_$name
  rm -rf $wt $out; mkdir -p $out
  git -C /repo worktree add -q --detach $wt HEAD || { echo -e "$name\t-\tworktree-failed"; return; }
  if ! git -C $wt apply /verif/seeded/$name/patch.diff 2>/dev/null && ! git -C $wt apply --3way /verif/seeded/$name/patch.diff 2>/dev/null; then
     echo -e "$name\t-\tpatch-does-not-apply"; git -C /repo worktree remove --force $wt; return; fi
  for id in "$@"; do
    EMG3D_REPO=$wt PYTHONPATH=$wt VERIF_OUT=$out NUMBA_CACHE_DIR=/tmp/nbc_mx_$name timeout 3000 ./check $id --tier quick > $out/$id.log 2>&1; rc=$?
    nviol=$(grep -c '^VIOLATION' $out/$id.log)
    echo -e "$name\t$id\trc=$rc\tviolations=$nviol"
  done
  git -C /repo worktree remove --force $wt; rm -rf $out /tmp/nbc_mx_$name
}
export -f run_one
python3 - <<'PY' > /tmp/mx_jobs.txt
import os, json
owner = {}   # mutant -> checks to run (its own property first, plus the check that owns the mechanism)
extra = {'C01_m3': ['C02'], 'C07_m2': ['C12'], 'C07_m3': ['C01'], 'C08_m1': ['C15'], 'C12_m2': ['C17'],
         'C14_m2': ['C07', 'C08'], 'C17_m2': ['C12'], 'C14_m1': [],
         # round 2
         'C01_m4': ['C02'], 'C08_m4': ['C15'], 'C14_m6': ['C15'], 'C17_m6': ['C12'], 'C12_m5': ['C11'],
         'C07_m5': ['C13']}
for name in sorted(os.listdir('/verif/seeded')):
    if not os.path.isdir(f'/verif/seeded/{name}'): continue
    ids = [name.split('_')[0]] + extra.get(name, [])
    print(name, *ids)
PY
cat /tmp/mx_jobs.txt | xargs -P $jobs -L 1 bash -c 'run_one "$@"' _ | tee /verif/seeded/RESULTS.tsv
