"""C10 — sources inject exactly their nominal moment in their nominal direction.

Real code (shadow): fields._point_vector, fields._dipole_vector,
fields.get_source_field, electrodes.rotation / point_to_dipole /
dipole_to_point / point_to_square_loop.
"""
import time
import itertools
from fractions import Fraction

import numpy as np
import z3

import symx
from symx import Q, Qc, B, Ctx, set_ctx, sym_array, State, shadow, \
    Inconclusive
from symx.proxies import _Namespace
from . import fit
from .common import ob, Run, pmap
from .c09 import GRIDS, _mkgrid

PID = 'C10'
# direction families for finite dipoles: rational directions of rational
# length (axis-aligned and Pythagorean), so that |p1-p0| = t*|d| exactly
DIRS = {
    'x': ((1, 0, 0), 1), 'y': ((0, 1, 0), 1), 'z': ((0, 0, 1), 1),
    '-x': ((-1, 0, 0), 1), 'xy': ((3, 4, 0), 5), 'yz': ((0, -4, 3), 5),
    'xz': ((4, 0, 3), 5), 'xyz': ((2, 3, 6), 7), 'x-yz': ((6, -2, 3), 7),
}


class _Duck:
    pass


def case_point(name):
    """Point source anywhere in the grid: component sums == unit direction;
    support within one cell's edges."""
    E = shadow.load()
    c = set_ctx(Ctx(timeout_ms=60000))
    State.OBJECT_ALLOC = True
    grid = _mkgrid(E, name)
    pos = [Q.var(n) for n in 'xyz']
    nodes = [grid.nodes_x, grid.nodes_y, grid.nodes_z]
    for p, n in zip(pos, nodes):
        c.assume(B(z3.And(p.t >= Fraction(float(n[0])),
                          p.t <= Fraction(float(n[-1])))))
    az, el = Q.var('az'), Q.var('el')
    grp = f"point source anywhere in grid {name}"
    stats = dict(paths=0)
    bad = None
    t0 = time.time()

    def path():
        vf = E.fields._point_vector(grid, (pos[0], pos[1], pos[2], az, el))
        return vf, E.electrodes.rotation(az, el)
    try:
        for (vf, rot), pc, tr in c.explore(path, budget_s=1200):
            stats['paths'] += 1
            c.pc = pc
            parts = [vf.fx, vf.fy, vf.fz]
            for d in range(3):
                tot = Q(Fraction(0))
                nz = 0
                for x in parts[d].flat:
                    if isinstance(x, Q) and x.c is not None and x.c == 0:
                        continue
                    nz += 1
                    tot = tot + x
                v, m = c.valid(symx.qt(tot) == symx.qt(rot[d]), label='sum')
                if v != 'held' or nz > 8:
                    r, mw = c.check(label='w')
                    mm = m if m is not None else mw
                    bad = (v, nz, [float(symx.model_value(mm, p))
                                   for p in pos] if mm is not None else None)
                    break
                # support: an edge carries a contribution only if the point
                # lies in the support of its (tri-linear) hat function
                for idx in np.ndindex(*parts[d].shape):
                    x = parts[d][idx]
                    if isinstance(x, Q) and x.c is not None and x.c == 0:
                        continue
                    if not isinstance(x, Q) and x == 0:
                        continue
                    conj = []
                    for k in range(3):
                        nn = [Fraction(float(v_)) for v_ in nodes[k]]
                        if k == d:      # cell centres along the edge
                            cc = [(a_+b_)/2 for a_, b_ in zip(nn[:-1],
                                                              nn[1:])]
                            # (in the outermost half cells the code
                            # extrapolates from the two nearest centres)
                            lo = cc[idx[k]-1] if idx[k] > 1 else nn[0]
                            hi = cc[idx[k]+1] if idx[k]+2 < len(cc) \
                                else nn[-1]
                        else:           # nodes across
                            lo = nn[max(idx[k]-1, 0)]
                            hi = nn[min(idx[k]+1, len(nn)-1)]
                        conj.append(z3.And(pos[k].t >= lo, pos[k].t <= hi))
                    v2, m2 = c.valid(z3.Or(z3.And(*conj), symx.qt(x) == 0),
                                     label='support')
                    if v2 != 'held':
                        bad = (v2, 99, [float(symx.model_value(m2, p))
                                        for p in pos] if m2 is not None
                               else None)
                        break
                if bad:
                    break
            if bad:
                break
    except Inconclusive as e:
        return [ob("exploration", 'unknown', group=grp, cls='POLY-ID',
                   note=str(e))]
    if bad:
        return [ob("point source sums", 'cex' if bad[0] == 'cex' or
                   bad[1] > 8 else 'unknown', group=grp, cls='POLY-ID',
                   seconds=time.time()-t0, note=str(bad),
                   key="point source does not sum to its unit direction",
                   cex=dict(kind='point', grid=name, pos=bad[2]))]
    return [ob(f"all {stats['paths']} cell classes: each component sums to "
               f"(cos az cos el, sin az cos el, sin el); <= 8 edges per "
               f"component, each inside the hat support that contains the "
               f"point", 'held', group=grp, cls='POLY-ID',
               seconds=time.time()-t0),
            ob("twin: several cell classes", 'twin_sat' if stats['paths'] > 1
               else 'twin_unsat', group=grp, cls='POLY-ID',
               nontrivial=False)]


def case_dipole(case):
    """Finite dipole p0 -> p0 + t*d, p0 and t symbolic."""
    name, dname, cell = case[:3]
    span = case[3] if len(case) > 3 else 2
    E = shadow.load()
    c = set_ctx(Ctx(timeout_ms=60000))
    State.OBJECT_ALLOC = True
    grid = _mkgrid(E, name)
    shape = grid.shape_cells
    d, dlen = DIRS[dname]
    nodes = [grid.nodes_x, grid.nodes_y, grid.nodes_z]
    p0 = [Q.var(f"p0{n}") for n in 'xyz']
    t = Q.var('t')
    c.assume(B(t.t > 0))
    p1 = [p0[k]+t*d[k] for k in range(3)]
    # first electrode in the closed cell `cell`; whole dipole in the grid
    # and at most `span` cells long per direction
    for k in range(3):
        lo = Fraction(float(nodes[k][cell[k]]))
        hi = Fraction(float(nodes[k][cell[k]+1]))
        c.assume(B(z3.And(p0[k].t >= lo, p0[k].t <= hi)))
        far = min(len(nodes[k])-1, cell[k]+span) if d[k] >= 0 \
            else cell[k]+1
        near = max(0, cell[k]+1-span) if d[k] <= 0 else cell[k]
        c.assume(B(z3.And(symx.qt(p1[k]) <= Fraction(float(nodes[k][far])),
                          symx.qt(p1[k]) >= Fraction(float(nodes[k][near])))))
    # the outermost node planes are excluded (see known finding)
    for k in range(3):
        if d[k] == 0:
            c.assume(B(p0[k].t < Fraction(float(nodes[k][-1]))))
    grp = f"dipole dir={dname} first electrode in cell {cell} of {name}"

    def exact_norm(v, *a, **kw):
        """Euclidean norm of a vector parallel to d (checked)."""
        v = list(np.asarray(v, dtype=object).ravel())
        k0 = [k for k in range(3) if d[k] != 0][0]
        lam = v[k0]/d[k0]
        for k in range(3):
            vd, m = c.valid(symx.qt(v[k]) == symx.qt(lam*d[k]),
                            label='parallel')
            if vd != 'held':
                raise Inconclusive("norm stub: vector not parallel to d")
        return abs(lam)*dlen
    real_np = E.fields.np
    E.fields.np = _Namespace(real_np, dict(
        linalg=_Namespace(real_np.linalg, dict(norm=exact_norm))))
    stats = dict(paths=0, warned=0)
    bad = None
    t0 = time.time()
    import warnings

    def path():
        pts = np.array([[p0[0], p0[1], p0[2]], [p1[0], p1[1], p1[2]]],
                       dtype=object).view(symx.SymArray)
        with warnings.catch_warnings(record=True) as w:
            warnings.simplefilter('always')
            try:
                vf = E.fields._dipole_vector(grid, pts)
            except ValueError as e:
                return None, [f"ValueError: {e}"[:60]]
        return vf, [str(x.message) for x in w]
    try:
        for (vf, warns), pc, tr in c.explore(path, budget_s=3600,
                                             max_paths=8000):
            stats['paths'] += 1
            c.pc = pc
            if vf is None:
                # rejected: only legitimate for (numerically) zero length
                v, m = c.valid(symx.qt(t*dlen) < Fraction(1e-15),
                               label='reject')
                if v != 'held':
                    bad = (f"dipole rejected: {warns}", v, m)
                    break
                continue
            parts = [vf.fx, vf.fy, vf.fz]
            if any('Normalizing' in x for x in warns):
                r, mw = c.check(label='w', timeout_ms=120000)
                if r == 'unsat':
                    continue      # path only feasible for the over-
                    #               approximating (unknown) branch test
                stats['warned'] += 1
                bad = ('normalisation guard fired', 'cex' if r == 'sat'
                       else 'unknown', mw)
                break
            conj = []
            for k in range(3):
                tot = Q(Fraction(0))
                for x in parts[k].flat:
                    tot = tot + x
                conj.append(symx.qt(tot) == symx.qt(t*d[k]))
            v, m = c.valid(z3.And(*conj), label='moment')
            if v != 'held':
                bad = ('component sums != electrode difference', v, m)
                break
            # support: only edges of cells inside the segment's bounding
            # box (= the touched cells for axis-aligned dipoles) may carry a
            # contribution
            conj = []
            for k in range(3):
                k1, k2 = fit.CYC[k]
                for idx in np.ndindex(*parts[k].shape):
                    x = parts[k][idx]
                    if isinstance(x, Q) and x.c is not None and x.c == 0:
                        continue
                    cells = []
                    for a in (0, 1):
                        for b2 in (0, 1):
                            cidx = list(idx)
                            cidx[k1] -= a
                            cidx[k2] -= b2
                            if not all(0 <= cidx[q] < shape[q]
                                       for q in range(3)):
                                continue
                            box = []
                            for q in range(3):
                                lo_s = p0[q] if d[q] >= 0 else p1[q]
                                hi_s = p1[q] if d[q] >= 0 else p0[q]
                                box.append(z3.And(
                                    symx.qt(hi_s) >= Fraction(
                                        float(nodes[q][cidx[q]])),
                                    symx.qt(lo_s) <= Fraction(
                                        float(nodes[q][cidx[q]+1]))))
                            cells.append(z3.And(*box))
                    conj.append(z3.Implies(symx.qt(x) != 0,
                                           z3.Or(*cells) if cells else
                                           z3.BoolVal(False)))
            if conj:
                v, mm = c.valid(z3.And(*conj), label='support')
                if v != 'held':
                    bad = ("an edge outside the segment's bounding-box "
                           "cells carries a contribution", v, mm)
            if bad:
                break
    except Inconclusive as e:
        E.fields.np = real_np
        return [ob("exploration", 'unknown', group=grp, cls='NRA-small',
                   note=str(e))]
    finally:
        E.fields.np = real_np
    dt = time.time()-t0
    if bad:
        why, v, m = bad
        wit = None
        if m is not None:
            wit = dict(p0=[float(symx.model_value(m, q)) for q in p0],
                       t=float(symx.model_value(m, t)))
        return [ob("finite dipole moment / support", 'cex' if v == 'cex'
                   else 'unknown', group=grp, cls='NRA-small', seconds=dt,
                   note=why, key=f"finite dipole: {why}",
                   cex=dict(kind='dipole', grid=name, dir=dname, d=list(d),
                            witness=wit, why=why))]
    return [ob(f"all {stats['paths']} crossing classes: components sum to "
               f"p1 - p0, normalisation guard never fires, only edges of "
               f"touched cells carry a contribution", 'held', group=grp,
               cls='NRA-small', seconds=dt,
               note=f"paths={stats['paths']} queries={c.stats['queries']}"),
            ob("twin: several crossing classes", 'twin_sat' if
               stats['paths'] > 1 else 'twin_unsat', group=grp,
               cls='NRA-small', nontrivial=False)]


def case_wire(case):
    """Three-electrode wire p0 -> p0+t1*d1 -> p0+t1*d1+t2*d2 inside one
    cell: component sums == last - first electrode; == sum of segments."""
    name, dn1, dn2, cell = case
    E = shadow.load()
    c = set_ctx(Ctx(timeout_ms=60000))
    State.OBJECT_ALLOC = True
    grid = _mkgrid(E, name)
    nodes = [grid.nodes_x, grid.nodes_y, grid.nodes_z]
    (d1, l1), (d2, l2) = DIRS[dn1], DIRS[dn2]
    p0 = [Q.var(f"p0{n}") for n in 'xyz']
    t1, t2 = Q.var('t1'), Q.var('t2')
    c.assume(B(z3.And(t1.t > 0, t2.t > 0)))
    p1 = [p0[k]+t1*d1[k] for k in range(3)]
    p2 = [p1[k]+t2*d2[k] for k in range(3)]
    for k in range(3):
        lo = Fraction(float(nodes[k][cell[k]]))
        hi = Fraction(float(nodes[k][cell[k]+1]))
        for p in (p0, p1, p2):
            c.assume(B(z3.And(symx.qt(p[k]) >= lo, symx.qt(p[k]) <= hi)))
        if cell[k]+1 == len(nodes[k])-1:
            for p in (p0, p1, p2):
                c.assume(B(symx.qt(p[k]) < hi))
    grp = f"wire {dn1}+{dn2} inside cell {cell} of {name}"

    def exact_norm(v, *a, **kw):
        v = list(np.asarray(v, dtype=object).ravel())
        for d, dlen in ((d1, l1), (d2, l2)):
            k0 = [k for k in range(3) if d[k] != 0][0]
            lam = v[k0]/d[k0]
            if all(c.valid(symx.qt(v[k]) == symx.qt(lam*d[k]),
                           label='parallel')[0] == 'held'
                   for k in range(3)):
                return abs(lam)*dlen
        raise Inconclusive("norm stub: vector parallel to neither segment")
    real_np = E.fields.np
    E.fields.np = _Namespace(real_np, dict(
        allclose=real_np.allclose,
        linalg=_Namespace(real_np.linalg, dict(norm=exact_norm))))
    import warnings
    stats = dict(paths=0)
    bad = None
    t0 = time.time()

    def path():
        pts = np.array([p0, p1, p2], dtype=object).view(symx.SymArray)
        with warnings.catch_warnings(record=True) as w:
            warnings.simplefilter('always')
            try:
                vf = E.fields._dipole_vector(grid, pts)
            except ValueError as e:
                return None, [f"ValueError: {e}"[:60]]
        return vf, [str(x.message) for x in w]
    try:
        for (vf, warns), pc, tr in c.explore(path, budget_s=1200,
                                             max_paths=4000):
            stats['paths'] += 1
            c.pc = pc
            if vf is None:
                v, m = c.valid(z3.Or(symx.qt(t1*l1) < Fraction(1e-15),
                                     symx.qt(t2*l2) < Fraction(1e-15)),
                               label='reject')
                if v != 'held':
                    bad = (f"wire rejected: {warns}", v, m)
                    break
                continue
            if any('Normalizing' in x for x in warns):
                r, mw = c.check(label='w', timeout_ms=120000)
                if r == 'unsat':
                    continue
                bad = ('normalisation guard fired', 'cex' if r == 'sat'
                       else 'unknown', mw)
                break
            parts = [vf.fx, vf.fy, vf.fz]
            conj = []
            for k in range(3):
                tot = Q(Fraction(0))
                for x in parts[k].flat:
                    tot = tot + x
                conj.append(symx.qt(tot) == symx.qt(p2[k]-p0[k]))
            v, m = c.valid(z3.And(*conj), label='wire moment')
            if v != 'held':
                bad = ('wire component sums != last - first electrode', v, m)
                break
    except Inconclusive as e:
        return [ob("exploration", 'unknown', group=grp, cls='NRA-small',
                   note=str(e))]
    finally:
        E.fields.np = real_np
    dt = time.time()-t0
    if bad:
        why, v, m = bad
        wit = None
        if m is not None:
            wit = dict(p0=[float(symx.model_value(m, q)) for q in p0],
                       t1=float(symx.model_value(m, t1)),
                       t2=float(symx.model_value(m, t2)))
        return [ob("wire moment", 'cex' if v == 'cex' else 'unknown',
                   group=grp, cls='NRA-small', seconds=dt, note=why,
                   key=f"wire: {why}",
                   cex=dict(kind='wire', grid=name, d1=list(d1), d2=list(d2),
                            witness=wit, why=why))]
    return [ob(f"all {stats['paths']} classes: wire components sum to last "
               f"- first electrode; no segment is dropped; guard never "
               f"fires", 'held', group=grp, cls='NRA-small', seconds=dt),
            ob("twin: reached", 'twin_sat' if stats['paths'] >= 1 else
               'twin_unsat', group=grp, cls='NRA-small', nontrivial=False)]


def case_scaling(case):
    """get_source_field: field = vector * strength * (-s mu0); plain vector
    when frequency is None; wires are sums of their segments."""
    name, freq, kind = case
    E = shadow.load()
    c = set_ctx(Ctx(timeout_ms=60000))
    grid = _mkgrid(E, name)
    nodes = [grid.nodes_x, grid.nodes_y, grid.nodes_z]
    a = [float(n[1]+0.25*(n[2]-n[1])) for n in nodes]
    b = [float(n[-2]-0.25*(n[-2]-n[-3])) if len(n) > 3 else
         float(n[1]+0.75*(n[2]-n[1])) for n in nodes]
    mid = [a[0], b[1], (a[2]+b[2])/2]
    if kind == 'dipole':
        src = (a[0], b[0], a[1], b[1], a[2], b[2])
    elif kind == 'point':
        src = (a[0], a[1], a[2], 25.0, -40.0)
    else:
        src = np.array([a, mid, b])
    State.OBJECT_ALLOC = True       # same exact arithmetic on both sides
    vec = E.fields.get_source_field(grid, src, None)
    strength = Q.var('strength')
    grp = f"scaling {kind} grid={name} frequency={freq}"
    obs = []
    sf = E.fields.get_source_field(grid, src, freq, strength=strength)
    from scipy.constants import mu_0
    if freq is None:
        fac = Qc(strength, 0)
    elif freq > 0:
        fac = Qc(0, -2*np.pi*freq*mu_0)*strength
    else:
        fac = Qc(-(-freq)*mu_0, 0)*strength
    t1 = time.time()
    conj = []
    for k in range(vec.field.size):
        vk = vec.field[k]
        want = fac*(vk if isinstance(vk, Q) else float(np.real(vk)))
        got = Qc._co(sf.field[k])
        conj.append(z3.And(symx.qt(got.re) == symx.qt(want.re),
                           symx.qt(got.im) == symx.qt(want.im)))
    vd, m = c.valid(z3.And(*conj), label='scaling')
    obs.append(ob("source field == unit vector * strength * (-s mu0) "
                  "(vector * strength when frequency is None)", vd,
                  group=grp, cls='LIN', seconds=time.time()-t1,
                  key=f"source field scaling wrong ({kind}, "
                      f"{'no' if freq is None else 'Laplace' if freq < 0 else 'frequency'} domain)",
                  cex=dict(kind='scaling', grid=name, freq=freq, src=kind)
                  if vd == 'cex' else None))
    # same Source instance used repeatedly (frequency-free, Laplace,
    # frequency, ...): every call must give the same result as a fresh one
    if kind in ('dipole', 'wire') and freq is None:
        t1 = time.time()
        cls = E.electrodes.TxElectricDipole if kind == 'dipole' else \
            E.electrodes.TxElectricWire
        st = Fraction(5, 2)
        inst = cls(src, strength=2.5)
        seq = [None, -1.5, None, 1.5, -1.5, None]
        ok = True
        why = ''
        for f2 in seq:
            got = E.fields.get_source_field(grid, inst, f2)
            if f2 is None:
                fac2 = Qc(st, 0)
            elif f2 > 0:
                fac2 = Qc(0, -2*np.pi*f2*mu_0)*st
            else:
                fac2 = Qc(-(-f2)*mu_0, 0)*st
            for k in range(vec.field.size):
                vk = vec.field[k]
                want = fac2*(vk if isinstance(vk, Q) else float(np.real(vk)))
                g = Qc._co(got.field[k])
                if not (bool(g.re == want.re) and bool(g.im == want.im)):
                    ok = False
                    why = f"call with frequency={f2} after {seq}"
                    break
            if not ok:
                break
        obs.append(ob("repeated calls with one Source instance (None, "
                      "Laplace, None, frequency, ...) each return vector*"
                      "strength*(-s mu0)", 'held' if ok else 'cex',
                      group=grp, cls='LIN', seconds=time.time()-t1, note=why,
                      key=f"get_source_field depends on earlier calls "
                          f"({kind})",
                      cex=dict(kind='sequence', grid=name, src=kind)
                      if not ok else None))
    if kind == 'wire':
        s1 = E.fields.get_source_field(grid, tuple(np.r_[a, mid][[0, 3, 1, 4,
                                                                  2, 5]]),
                                       None)
        s2 = E.fields.get_source_field(grid, tuple(np.r_[mid, b][[0, 3, 1, 4,
                                                                  2, 5]]),
                                       None)
        err = max(abs(float(x-y-z)) for x, y, z in
                  zip(vec.field, s1.field, s2.field))
        obs.append(ob("wire == sum of its segments (concrete)", 'held' if
                      err < 1e-12 else 'cex', cls='concrete', group=grp,
                      nontrivial=False, note=f"{err:.2e}",
                      key="wire is not the sum of its segments",
                      cex=dict(kind='scaling', grid=name, freq=freq,
                               src=kind) if err >= 1e-12 else None))
    return obs


def case_conversions(which):
    E = shadow.load()
    c = set_ctx(Ctx(timeout_ms=90000))
    State.OBJECT_ALLOC = True
    obs = []
    if which == 'roundtrip':
        grp = "dipole -> (azimuth, elevation, length) -> dipole"
        d0 = [Q.var(f"a{n}") for n in 'xyz']
        d1 = [Q.var(f"b{n}") for n in 'xyz']
        # non-degenerate
        c.assume(B(z3.Or(*[x.t != y.t for x, y in zip(d0, d1)])))
        dip = np.array([d0, d1], dtype=object).view(symx.SymArray)
        t1 = time.time()
        az, el, length = E.electrodes.dipole_to_point(dip)
        center = [(x+y)/2 for x, y in zip(d0, d1)]
        back = E.electrodes.point_to_dipole(
            np.array(center+[az, el], dtype=object).view(symx.SymArray),
            length)
        conj = []
        for i, row in enumerate((d0, d1)):
            for k in range(3):
                conj.append(symx.qt(back[i, k]) == row[k].t)
        vd, m = c.valid(z3.And(*conj), label='roundtrip')
        obs.append(ob("point_to_dipole(dipole_to_point(d)) returns the same "
                      "two electrodes for every non-degenerate dipole", vd,
                      group=grp, cls='NRA-small', seconds=time.time()-t1,
                      key="dipole <-> point conversion does not round-trip",
                      cex=dict(kind='roundtrip') if vd == 'cex' else None))
    else:
        grp = "magnetic dipole -> square loop"
        ctr = [Q.var(n) for n in 'xyz']
        az, el = Q.var('az'), Q.var('el')
        area = Q.var('area')
        c.assume(B(area.t > 0))
        src = np.array(ctr+[az, el], dtype=object).view(symx.SymArray)
        t1 = time.time()
        pts = E.electrodes.point_to_square_loop(src, area)
        rot = E.electrodes.rotation(az, el)
        conj = []
        # closed
        closed = all(c.valid(symx.qt(pts[0, k]) == symx.qt(pts[4, k]))[0]
                     == 'held' for k in range(3))
        e1 = [pts[1, k]-pts[0, k] for k in range(3)]
        e2 = [pts[2, k]-pts[1, k] for k in range(3)]
        e3 = [pts[3, k]-pts[2, k] for k in range(3)]

        def dot(u, v):
            return u[0]*v[0]+u[1]*v[1]+u[2]*v[2]

        def cross(u, v):
            return [u[1]*v[2]-u[2]*v[1], u[2]*v[0]-u[0]*v[2],
                    u[0]*v[1]-u[1]*v[0]]
        nrm = cross(e1, e2)
        props = {
            "sides have squared length == area (square of that area)":
                z3.And(symx.qt(dot(e1, e1)) == area.t,
                       symx.qt(dot(e2, e2)) == area.t),
            "adjacent sides are perpendicular, opposite sides parallel":
                z3.And(symx.qt(dot(e1, e2)) == 0,
                       *[symx.qt(e3[k]) == symx.qt(-e1[k])
                         for k in range(3)]),
            "right-handed normal == area * dipole direction":
                z3.And(*[symx.qt(nrm[k]) == symx.qt(area*rot[k])
                         for k in range(3)]),
            "centre of the loop is the dipole position":
                z3.And(*[symx.qt(pts[0, k]+pts[2, k]) == symx.qt(2*ctr[k])
                         for k in range(3)]),
        }
        obs.append(ob("loop is closed (first == last point)", 'held' if
                      closed else 'cex', group=grp, cls='NRA-small',
                      key="square loop is not closed",
                      cex=dict(kind='loop') if not closed else None))
        for lbl, prop in props.items():
            t1 = time.time()
            vd, m = c.valid(prop, label=lbl)
            obs.append(ob(lbl, vd, group=grp, cls='NRA-small',
                          seconds=time.time()-t1,
                          key=f"square loop: {lbl} fails",
                          cex=dict(kind='loop') if vd == 'cex' else None))
    r3, _ = c.check(label='twin')
    obs.append(ob("twin: axioms satisfiable", 'twin_sat' if r3 == 'sat' else
                  'twin_unsat', group=grp, cls='NRA-small'))
    return obs


# --------------------------------------------------------------------------
def replay(cex):
    import emg3d
    import warnings
    kind = cex['kind']
    rng = np.random.default_rng(2)
    if kind == 'point':
        h, o = GRIDS[cex['grid']]
        grid = emg3d.TensorMesh([np.array(x, dtype=float) for x in h], o)
        pos = cex.get('pos')
        if pos is None:
            return False, 'no witness'
        worst = far = 0.0
        for az, el in ((0., 0.), (33., -20.), (90., 90.), (-120., 45.)):
            vf = emg3d.fields._point_vector(grid, (*pos, az, el))
            rot = emg3d.electrodes.rotation(az, el)
            for d, part in enumerate([vf.fx, vf.fy, vf.fz]):
                worst = max(worst, abs(part.sum()-rot[d]))
                # support within the hat functions that contain the point
                nodes = [grid.nodes_x, grid.nodes_y, grid.nodes_z]
                for idx in zip(*np.nonzero(part)):
                    for k in range(3):
                        nn = nodes[k]
                        if k == d:
                            cc = (nn[1:]+nn[:-1])/2
                            lo = cc[idx[k]-1] if idx[k] > 1 else nn[0]
                            hi = cc[idx[k]+1] if idx[k]+2 < cc.size \
                                else nn[-1]
                        else:
                            lo = nn[max(idx[k]-1, 0)]
                            hi = nn[min(idx[k]+1, nn.size-1)]
                        if not (lo-1e-9 <= pos[k] <= hi+1e-9):
                            far = max(far, abs(part[idx]))
        return (worst > 1e-9 or far > 1e-12), (
            f"real point source at {pos}: |component sums - unit direction| "
            f"= {worst:.2e}; largest contribution on an edge whose hat "
            f"function does not contain the point: {far:.2e}")
    if kind == 'dipole':
        h, o = GRIDS[cex['grid']]
        grid = emg3d.TensorMesh([np.array(x, dtype=float) for x in h], o)
        wit = cex.get('witness')
        if not wit:
            return False, 'no witness'
        p0 = np.array(wit['p0'])
        p1 = p0+wit['t']*np.array(cex['d'], dtype=float)
        with warnings.catch_warnings(record=True) as w:
            warnings.simplefilter('always')
            vf = emg3d.fields._dipole_vector(grid, np.array([p0, p1]))
        sums = np.array([vf.fx.sum(), vf.fy.sum(), vf.fz.sum()])
        err = float(np.abs(sums-(p1-p0)).max()) if np.all(
            np.isfinite(sums)) else float('inf')
        warned = [str(x.message) for x in w if 'Normalizing' in
                  str(x.message)]
        return (err > 1e-9 or bool(warned)), (
            f"real _dipole_vector {list(p0)} -> {list(p1)}: component sums "
            f"{list(sums)} vs electrode difference {list(p1-p0)}; warnings: "
            f"{warned}")
    if kind == 'wire':
        h, o = GRIDS[cex['grid']]
        grid = emg3d.TensorMesh([np.array(x, dtype=float) for x in h], o)
        wit = cex.get('witness')
        if not wit:
            return False, 'no witness'
        q0 = np.array(wit['p0'])
        q1 = q0+wit['t1']*np.array(cex['d1'], dtype=float)
        q2 = q1+wit['t2']*np.array(cex['d2'], dtype=float)
        with warnings.catch_warnings(record=True) as w:
            warnings.simplefilter('always')
            vf = emg3d.fields._dipole_vector(grid, np.array([q0, q1, q2]))
        sums = np.array([vf.fx.sum(), vf.fy.sum(), vf.fz.sum()])
        sc = max(np.abs(q2-q0).max(), np.abs(q1-q0).max(),
                 np.abs(q2-q1).max())
        err = float(np.abs(sums-(q2-q0)).max()/sc)
        return err > 1e-9, (f"real wire {list(q0)} -> {list(q1)} -> "
                            f"{list(q2)}: component sums {list(sums)} vs "
                            f"last - first {list(q2-q0)}")
    if kind == 'scaling':
        from scipy.constants import mu_0
        h, o = GRIDS[cex['grid']]
        grid = emg3d.TensorMesh([np.array(x, dtype=float) for x in h], o)
        nodes = [grid.nodes_x, grid.nodes_y, grid.nodes_z]
        a = [float(n[1]+0.25*(n[2]-n[1])) for n in nodes]
        b = [float(n[-2]-0.25*(n[-2]-n[-3])) if len(n) > 3 else
             float(n[1]+0.75*(n[2]-n[1])) for n in nodes]
        mid = [a[0], b[1], (a[2]+b[2])/2]
        src = {'dipole': (a[0], b[0], a[1], b[1], a[2], b[2]),
               'point': (a[0], a[1], a[2], 25.0, -40.0),
               'wire': np.array([a, mid, b])}[cex['src']]
        freq = cex['freq']
        vec = emg3d.get_source_field(grid, src, None)
        st = 2.5-1.5j if (freq or 0) > 0 else 2.5
        sf = emg3d.get_source_field(grid, src, freq, strength=st)
        if freq is None:
            fac = st
        elif freq > 0:
            fac = -2j*np.pi*freq*mu_0*st
        else:
            fac = -(-freq)*mu_0*st
        err = float(np.abs(sf.field-fac*vec.field).max() /
                    max(np.abs(fac*vec.field).max(), 1e-300))
        msg = f"real get_source_field ({cex['src']}, f={freq}) vs vector*" \
              f"strength*(-s mu0): rel. diff {err:.2e}"
        if cex['src'] == 'wire':
            s1 = emg3d.get_source_field(grid, tuple(np.r_[a, mid][
                [0, 3, 1, 4, 2, 5]]), None)
            s2 = emg3d.get_source_field(grid, tuple(np.r_[mid, b][
                [0, 3, 1, 4, 2, 5]]), None)
            e2 = float(np.abs(vec.field-s1.field-s2.field).max())
            msg += f"; wire - segments {e2:.2e}"
            err = max(err, e2)
        return err > 1e-9, msg
    if kind == 'sequence':
        from scipy.constants import mu_0
        h, o = GRIDS[cex['grid']]
        grid = emg3d.TensorMesh([np.array(x, dtype=float) for x in h], o)
        nodes = [grid.nodes_x, grid.nodes_y, grid.nodes_z]
        a = [float(n[1]+0.25*(n[2]-n[1])) for n in nodes]
        b = [float(n[-2]-0.25*(n[-2]-n[-3])) if len(n) > 3 else
             float(n[1]+0.75*(n[2]-n[1])) for n in nodes]
        mid = [a[0], b[1], (a[2]+b[2])/2]
        if cex['src'] == 'dipole':
            inst = emg3d.TxElectricDipole(
                (a[0], b[0], a[1], b[1], a[2], b[2]), strength=2.5)
        else:
            inst = emg3d.TxElectricWire(np.array([a, mid, b]), strength=2.5)
        fresh = emg3d.get_source_field(grid, inst.points, None)
        worst = 0.0
        for f2 in [None, -1.5, None, 1.5, -1.5, None]:
            got = emg3d.get_source_field(grid, inst, f2)
            fac = 2.5 if f2 is None else (
                -2j*np.pi*f2*mu_0*2.5 if f2 > 0 else -(-f2)*mu_0*2.5)
            worst = max(worst, float(np.abs(got.field-fac*fresh.field).max()
                                     / np.abs(fac*fresh.field).max()))
        return worst > 1e-9, (f"real get_source_field called repeatedly on "
                              f"one {cex['src']} instance: max rel. "
                              f"deviation {worst:.2e}")
    if kind == 'roundtrip':
        worst = 0.0
        for _ in range(50):
            d = rng.uniform(-5, 5, (2, 3))
            if rng.uniform() < 0.3:
                d[1, :2] = d[0, :2]         # vertical
            az, el, ln = emg3d.electrodes.dipole_to_point(d)
            back = emg3d.electrodes.point_to_dipole(
                np.r_[d.mean(0), az, el], ln)
            worst = max(worst, float(np.abs(back-d).max()))
        return worst > 1e-9, (f"real dipole->point->dipole on 50 random "
                              f"dipoles: max deviation {worst:.2e}")
    if kind == 'loop':
        worst = 0.0
        desc = ''
        for _ in range(60):
            az, el = rng.uniform(-180, 180), rng.uniform(-90, 90)
            area = rng.uniform(0.5, 4)
            ctr = rng.uniform(-3, 3, 3)
            pts = emg3d.electrodes.point_to_square_loop(
                np.r_[ctr, az, el], area)
            e1, e2 = pts[1]-pts[0], pts[2]-pts[1]
            nrm = np.cross(e1, e2)
            rot = emg3d.electrodes.rotation(az, el)
            errs = [abs(e1@e1-area), abs(e2@e2-area), abs(e1@e2),
                    np.abs(nrm-area*rot).max(), np.abs(pts[0]-pts[4]).max(),
                    np.abs((pts[0]+pts[2])/2-ctr).max()]
            if max(errs) > worst:
                worst = max(errs)
                desc = f"az={az:.1f} el={el:.1f}: {['side1', 'side2', 'perp', 'normal', 'closed', 'centre'][int(np.argmax(errs))]}"
        return worst > 1e-9, (f"real point_to_square_loop on 60 random "
                              f"dipoles: worst deviation {worst:.2e} "
                              f"({desc})")
    return False, 'unknown kind'


def _dispatch(job):
    return globals()[job[0]](job[1])


def main(tier):
    shadow.load()
    run = Run(PID, tier, design_ref='DESIGN.md §6 C10')
    run.functions.update(shadow.func_lines(
        'emg3d/fields.py', ['_point_vector', '_dipole_vector',
                            'get_source_field']))
    run.functions.update(shadow.func_lines(
        'emg3d/electrodes.py', ['rotation', 'point_to_dipole',
                                'dipole_to_point', 'point_to_square_loop']))
    run.extra['hashes'] = {k: v for k, v in shadow.hashes().items()
                           if k in ('emg3d/fields.py',
                                    'emg3d/electrodes.py')}
    jobs = [('case_point', g) for g in (['g333', 'g234'] if tier == 'quick'
                                        else list(GRIDS))]
    if tier == 'quick':
        dcases = [('g333', 'x', (0, 1, 1), 2), ('g333', 'y', (1, 0, 1), 2),
                  ('g333', 'z', (1, 1, 0), 2), ('g333', '-x', (2, 1, 1), 2),
                  ('g432', 'y', (3, 1, 1), 2),
                  ('g333', 'xy', (0, 0, 1), 1), ('g333', 'xyz', (1, 1, 1), 1),
                  ('g432', 'yz', (1, 1, 0), 1), ('g432', 'xz', (2, 0, 0), 1)]
    else:
        # span (nodes the second electrode may lie beyond) per direction:
        # 3 along an axis, 2 for the two-axis directions, 1 for the
        # three-axis ones (with span 2 those have 1400-2000+ crossing
        # classes per case and exhausted the 2400 s path budget when the
        # tier ran next to other checks => inconclusive)
        def span(dn):
            return {1: 3, 2: 2, 3: 1}[sum(1 for v in DIRS[dn][0] if v)]
        # ('yz' = (0,-4,3) from cell (1,1,0) of g333 with span 2 exhausted
        # a 3600 s path budget - the only one of these cases; span 1 there)
        slow = {('g333', 'yz', (1, 1, 0)): 1}
        dcases = [(g, dn, cell, slow.get((g, dn, cell), span(dn)))
                  for g in ('g333', 'g432')
                  for dn in DIRS for cell in ((0, 0, 0), (1, 1, 0),
                                              (1, 0, 1))
                  if all(cell[k] < len(GRIDS[g][0][k]) for k in range(3))]
    jobs += [('case_dipole', x) for x in dcases]
    for g in ('g333',):
        for f in (None, 1.5, -1.5):
            for kind in ('dipole', 'point', 'wire'):
                jobs.append(('case_scaling', (g, f, kind)))
    wcases = [('g333', 'x', 'y', (1, 1, 1)), ('g333', 'z', '-x', (0, 2, 1))]
    if tier != 'quick':
        wcases += [('g333', 'xy', 'z', (1, 1, 1)),
                   ('g432', 'y', 'xz', (2, 1, 0))]
    jobs += [('case_wire', w) for w in wcases]
    jobs += [('case_conversions', 'roundtrip'), ('case_conversions', 'loop')]
    obs = pmap(_dispatch, jobs)
    run.add(obs)
    run.bounds = dict(
        point="position symbolic anywhere in the grid, angles symbolic",
        dipole=[dict(grid=g, direction=DIRS[d][0], first_cell=cell,
                     span_nodes=sp) for g, d, cell, sp in dcases],
        scaling="concrete geometry, symbolic strength; frequency None / 1.5 "
                "/ -1.5",
        conversions="all dipoles / all centres, angles, areas (unbounded)")
    run.assumptions = [
        "np.round(., 9) is the identity (coordinates are multiples of 1 nm)",
        "finite dipoles: second electrode = first + t*d with d from a list "
        "of rational directions of rational length; |v| for vectors "
        "parallel to d is computed exactly as |v_k/d_k|*|d| (parallelism "
        "is checked by the solver at every call)",
        "dipoles lying in the outermost node plane of the grid (domain "
        "boundary) are excluded",
        "np.angle(z) is a fresh angle whose cos/sin pair satisfies c*|z| = "
        "Re z, s*|z| = Im z; cos/sin of theta+90k derived from the pair of "
        "theta",
    ]
    run.stubs = ["np.linalg.norm inside fields._dipole_vector -> exact norm "
                 "of a vector parallel to the known direction",
                 "scipy.special.cosdg/sindg, np.angle -> axiomatised"]
    run.outside = ["Dipole class constructor input normalisation",
                   "oblique directions of irrational length",
                   "wires with symbolic electrodes (checked concretely as "
                   "sum of segments)"]
    run.explanation = (
        "The source-vector routines are executed with symbolic electrode "
        "positions; clipping/sorting/min/max comparisons fork, so each path "
        "is one way the segment crosses the cells; per path z3 decides that "
        "the components sum to the electrode difference (resp. the unit "
        "direction), that the code's own re-normalisation guard cannot "
        "fire, and that only edges of touched cells are non-zero.  Scaling "
        "by strength*(-s mu0) is a linear identity with symbolic strength; "
        "the conversions are NRA queries with axiomatised trigonometry.")
    for o in obs[:3]:
        run.sample(dict(group=o['group'], label=o['label'][:200],
                        verdict=o['verdict'], note=o['note']))
    return run.finish(replay)
