"""C07 — adjoint-state gradient equals the derivative of the data misfit.

Real code (shadow): simulations.Simulation.compute / misfit / gradient /
_bcompute / _get_rfield (complete call chain on a real Simulation object),
maps.interp_edges_to_vol_averages, the Map* chain rules, electrodes
(_adjoint_source), fields.get_source_field / _point_vector.  emg3d.solve is
one uninterpreted function (simx), so the forward field E and the
back-propagated field lambda are arbitrary symbolic fields.

Adjoint-state theorem (mathematics, stated): with A(sigma) E = s, A complex
symmetric (C02), r = P E - d_obs, phi = 1/2 sum w |r|^2 (C13), P = V^T the
point-vector transpose (C09) and lambda = A^-1 (c0 * P^T conj(W r)):
    d phi / d sigma_k = - Re[ (1/c0) lambda^T (dA/d sigma_k) E ],
    (dA/d sigma_{d,k} E)_e = + 1/4 s mu0 V_k E_e on the four d-edges of k.
The solver decides the two code-level identities this needs:
 (i)  the adjoint source built by _get_rfield is c0 * sum_r conj(w_r r_r) v_r
      with v_r the unit point vector of receiver r (survey order, relative
      receivers, NaN data skipped), c0 = (-s mu0)/conj(-s mu0);
 (ii) the returned gradient equals the theorem's expression, including the
      anisotropy collection and the mapping's chain rule.
"""
import time
import warnings
from fractions import Fraction

import numpy as np
import z3

import symx
from symx import Q, Qc, B, Ctx, set_ctx, sym_array, State, shadow, \
    Inconclusive
from . import simx, c13, c14, fit
from .common import ob, Run, pmap

PID = 'C07'
from scipy.constants import mu_0   # noqa


def eqc(a, b):
    a, b = Qc._co(a), Qc._co(b)
    return z3.And(symx.qt(a.re) == symx.qt(b.re),
                  symx.qt(a.im) == symx.qt(b.im))


def build(E, c, recs, aniso, mapping, nan_at=None, nsrc=1, rel=False,
          W=None, sim_kw=None, gridding='same'):
    W = W or simx.World()
    keep = []
    saved = simx.install(E, W, keep) + [None]
    sv13 = c13.install(E)
    grid = simx.make_grid(E)
    simx.patch_grid_deriv(grid)
    sv, d, nfq = simx.make_survey(E, c, recs, nsrc=nsrc)
    if rel:
        # replace the last receiver by a source-relative one
        recs_l = list(sv.receivers.values())
        recs_l[-1] = E.electrodes.RxElectricPoint((0.5, 1.0, 0.75, 45., 0.),
                                                  relative=True)
        sv = E.surveys.Survey(list(sv.sources.values()), recs_l, [1.0],
                              data=d.view(symx.SymArray), noise_floor=nfq)
    if nan_at is not None:
        sv.data.observed.data[nan_at] = symx.NAN
    model, vals = simx.make_model(E, c, grid, aniso, mapping)
    sim_kw = dict(sim_kw or {})
    if callable(sim_kw.get('gridding_opts')):
        sim_kw['gridding_opts'] = sim_kw['gridding_opts'](sv, grid)
    sim = E.simulations.Simulation(sv, model, gridding=gridding,
                                   max_workers=1,
                                   receiver_interpolation='linear', verb=0,
                                   tqdm_opts=False, **(sim_kw or {}))
    return dict(W=W, saved=saved[:-1], sv13=sv13, grid=grid, sv=sv, d=d,
                nf=nfq, model=model, vals=vals, sim=sim, keep=keep)


def teardown(E, ctxd):
    simx.uninstall(ctxd['saved'])
    c13.uninstall(E, ctxd['sv13'])


def edges_of_cell(d, k):
    d1, d2 = fit.CYC[d]
    out = []
    for a in (0, 1):
        for b in (0, 1):
            idx = list(k)
            idx[d1] += a
            idx[d2] += b
            out.append(tuple(idx))
    return out


def case_gradient(case):
    recs, aniso, mapping, nan, rel = case
    E = shadow.load()
    c = set_ctx(Ctx(timeout_ms=120000))
    State.OBJECT_ALLOC = True
    warnings.filterwarnings('ignore')
    grp = (f"gradient recs={recs} aniso={aniso} mapping={mapping} "
           f"nan={nan} relative={rel}")
    obs = []
    X = build(E, c, recs, aniso, mapping,
              nan_at=(0, 0, 0) if nan else None, nsrc=2 if rel else 1,
              rel=rel)
    try:
        return check_identities(E, c, X, case, grp,
                                lambda sim: sim.gradient)
    finally:
        teardown(E, X)


def check_identities(E, c, X, case, grp, run_gradient, pid='C07'):
    recs, aniso, mapping, nan, rel = case
    obs = []
    if True:
        sim, sv, grid, model = X['sim'], X['sv'], X['grid'], X['model']
        shape = grid.shape_cells
        t0 = time.time()
        g = run_gradient(sim)
        build_s = time.time()-t0
        if c.stats['forks']:
            return [ob("harness: unexpected fork", 'error', group=grp,
                       note=str(c.stats['forks']))]
        freq = 1.0
        smu0 = Qc(0, 2*np.pi*freq*mu_0)
        msmu0 = -smu0
        c0 = msmu0/msmu0.conjugate()
        inv_c0 = msmu0.conjugate()/msmu0
        res = sim.data.residual
        wts = sim.data.weights
        gtot = [np.full(shape, None, dtype=object) for _ in range(3)]
        for si, (sname, src) in enumerate(sv.sources.items()):
            fname = list(sv.frequencies)[0]
            # (i) adjoint source
            t1 = time.time()
            rfield = sim._get_rfield(sname, fname)
            want = np.empty(rfield.field.size, dtype=object)
            want[:] = [Qc(0, 0)]*want.size
            for ri, (rname, rec) in enumerate(sv.receivers.items()):
                r_r = res.loc[sname, rname, fname].data.item()
                w_r = wts.loc[sname, rname, fname].data.item()
                if isinstance(r_r, symx.NaNQ):
                    continue
                coords = rec.coordinates_abs(src)
                State.OBJECT_ALLOC = False
                if rec.xtype == 'electric':
                    v = E.fields._point_vector(grid, coords).field
                else:
                    v = E.fields._point_vector_magnetic(grid, coords,
                                                        None).field
                State.OBJECT_ALLOC = True
                coef = c0*(Qc._co(r_r)*w_r).conjugate()
                if rec.xtype != 'electric':
                    # magnetic adjoint source: get_source_field divides the
                    # magnetic unit vector by (-s mu0) and multiplies the
                    # field by (-s mu0) again
                    coef = (Qc._co(r_r)*w_r).conjugate()/msmu0.conjugate()
                for j in np.nonzero(np.asarray(v))[0]:
                    want[j] = want[j] + coef*complex(v[j])
            if all(rr.xtype == 'electric' for rr in sv.receivers.values()):
                conj = [eqc(a, b) for a, b in zip(rfield.field, want)]
                vd, m = c.valid(z3.And(*conj), label='rfield')
            else:
                # magnetic unit vectors pass through float divisions by
                # s*mu0 inside get_source_field: compare the polynomials
                # coefficient-wise (1e-9 relative) on the solver's normal
                # form instead of exactly
                from .c09 import _max_coeff
                worst = scale = 0.0
                for a, b in zip(rfield.field, want):
                    a, b = Qc._co(a), Qc._co(b)
                    for x, y in ((a.re, b.re), (a.im, b.im)):
                        dt = z3.simplify(symx.qt(x)-symx.qt(y), som=True)
                        if not (z3.is_rational_value(dt) and
                                dt.as_fraction() == 0):
                            worst = max(worst, _max_coeff(dt))
                        yy = z3.simplify(symx.qt(y), som=True)
                        if not (z3.is_rational_value(yy) and
                                yy.as_fraction() == 0):
                            scale = max(scale, _max_coeff(yy))
                vd = 'held' if worst <= 1e-9*scale and scale > 0 else 'cex'
            if True:
                obs.append(ob(
                    f"source {sname}: adjoint source == c0 * sum_r "
                    f"conj(w_r r_r) * unit point vector of receiver r "
                    f"(survey order, absolute coordinates, NaN skipped)",
                    vd, group=grp, cls='POLY-ID', seconds=time.time()-t1,
                    key="adjoint source is not the weighted conjugated "
                        "residual at the receivers",
                    cex=dict(kind='rfield', case=list(case)) if vd == 'cex'
                    else None))
            # (ii) theorem expression from E and lambda of this source
            ef = sim._dict_get('efield', sname, fname)
            # lambda = Solve(model, adjoint source, tol_gradient): the very
            # field the gradient run obtained (same uninterpreted function)
            bf = E._multiprocessing.solver.solve(
                sim.model, rfield, tol=sim.tol_gradient)[0]
            eparts = [ef.fx, ef.fy, ef.fz]
            bparts = [bf.fx, bf.fy, bf.fz]
            h = grid.h
            for d in range(3):
                for k in np.ndindex(*shape):
                    V = float(h[0][k[0]]*h[1][k[1]]*h[2][k[2]])
                    acc = Qc(0, 0)
                    for e in edges_of_cell(d, k):
                        acc = acc + Qc._co(bparts[d][e])*Qc._co(eparts[d][e])
                    val = -((inv_c0*smu0*acc).re)*Fraction(V)/4
                    gtot[d][k] = val if gtot[d][k] is None else \
                        gtot[d][k]+val
        # collection + chain rule
        t1 = time.time()
        comps = {'iso': [('x', (0, 1, 2))],
                 'HTI': [('x', (0, 2)), ('y', (1,))],
                 'VTI': [('x', (0, 1)), ('z', (2,))],
                 'triaxial': [('x', (0,)), ('y', (1,)), ('z', (2,))]}[aniso]
        M = model.map
        garr = g if aniso != 'iso' else g[None, ...]
        conj = []
        for ci, (pname, dirs) in enumerate(comps):
            prop = getattr(model, 'property_'+pname)
            for k in np.ndindex(*shape):
                raw = Q(Fraction(0))
                for d in dirs:
                    raw = raw + gtot[d][k]
                p = prop[k]
                sig = M.backward(np.array([p], dtype=object).view(
                    symx.SymArray))[0]
                dsdp = c14.ddx(c, symx.qt(sig), symx.qt(p))
                conj.append(symx.qt(garr[ci][k]) == symx.qt(raw)*dsdp)
        shape_ok = garr.shape == (len(comps),)+tuple(shape)
        vd = 'held'
        for qi, q in enumerate(conj):
            v1, m = c.valid(q, label='gradient')
            if v1 != 'held':
                vd = v1
                import os
                if os.environ.get('C07_DEBUG'):
                    print('FAIL', qi, q.arg(0).sexpr()[:300], '\n',
                          z3.simplify(q.arg(1)).sexpr()[:300])
                break
        if not shape_ok:
            vd = 'cex'
        obs.append(ob(
            f"gradient ({len(conj)} entries, shape {garr.shape}) == "
            f"-Re[(1/c0) lambda^T (dA/dp) E] with dA/dsigma from the C02 "
            f"operator, anisotropy collection and chain rule of {mapping}",
            vd, group=grp, cls='POLY-ID', seconds=time.time()-t1,
            note=f"build {build_s:.2f}s",
            key=f"gradient assembly wrong (aniso={aniso}, mapping={mapping})",
            cex=dict(kind='gradient', case=list(case)) if vd == 'cex'
            else None))
        return obs


# --------------------------------------------------------------------------
def replay(cex):
    """Finite-difference check of the real gradient (public API)."""
    import emg3d
    warnings.filterwarnings('ignore')
    recs, aniso, mapping, nan, rel = cex['case'][:5]
    rng = np.random.default_rng(1)
    hx = np.array([2., 1., 1., 2.])*100
    grid = emg3d.TensorMesh([hx, np.array([1., 1., 2., 1.])*100,
                             np.array([1., 2., 1.])*100], (0, 0, 0))
    src = [emg3d.TxElectricDipole((250.+25*i, 150., 150., 20., 10.))
           for i in range(2 if rel else 1)]
    rec = []
    for i, ch in enumerate(recs):
        co = (225.+50*i, 250.-25*i, 200.+25*i, 30.*i, 10.*i)
        rec.append(emg3d.RxElectricPoint(co) if ch == 'e' else
                   emg3d.RxMagneticPoint(co))
    if rel:
        rec[-1] = emg3d.RxElectricPoint((50., 100., 75., 45., 0.),
                                        relative=True)
    M = getattr(emg3d.maps, 'Map'+mapping)()
    kw = dict(property_x=M.forward(rng.uniform(.5, 2, grid.shape_cells)))
    if aniso in ('HTI', 'triaxial'):
        kw['property_y'] = M.forward(rng.uniform(.5, 2, grid.shape_cells))
    if aniso in ('VTI', 'triaxial'):
        kw['property_z'] = M.forward(rng.uniform(.5, 2, grid.shape_cells))
    model = emg3d.Model(grid, mapping=mapping, **kw)
    survey = emg3d.Survey(src, rec, [1.0], noise_floor=1e-15,
                          relative_error=0.05)
    opts = dict(gridding='same', max_workers=1, verb=0,
                receiver_interpolation='linear', tqdm_opts=False,
                solver_opts=dict(tol=1e-10, sslsolver=True,
                                 semicoarsening=True, linerelaxation=True))
    sim = emg3d.Simulation(survey, model, **opts)
    sim.compute(observed=True)
    if nan:
        sim.survey.data.observed.data[0, 0, 0] = np.nan+1j*np.nan
    # perturb the model for the "true" one
    base = emg3d.Model(grid, mapping=mapping, **{
        k: v*(1+0.1*rng.uniform(-1, 1, v.shape)) if mapping in
        ('Conductivity', 'Resistivity') else v+0.05*rng.uniform(
            -1, 1, v.shape) for k, v in kw.items()})
    sim2 = emg3d.Simulation(sim.survey, base, **opts)
    g = sim2.gradient
    garr = g if aniso != 'iso' else g[None, ...]
    names = ['property_x']+[n for n in ('property_y', 'property_z')
                            if n in kw]
    worst = 0.0
    for ci, nm in enumerate(names):
        for k in [(1, 1, 1), (2, 2, 1)]:
            vals = {n: getattr(base, n).copy() for n in names}
            step = 1e-4*max(1.0, abs(vals[nm][k]))
            fd = []
            for sgn in (1, -1):
                v2 = {n: a.copy() for n, a in vals.items()}
                v2[nm][k] += sgn*step
                s3 = emg3d.Simulation(sim.survey, emg3d.Model(
                    grid, mapping=mapping, **v2), **opts)
                fd.append(s3.misfit)
            fdg = (fd[0]-fd[1])/(2*step)
            worst = max(worst, abs(fdg-garr[ci][k])/max(abs(fdg), 1e-30))
    return worst > 1e-3, (f"real gradient vs central finite difference of "
                          f"the misfit ({aniso}, {mapping}, recs={recs}): "
                          f"max rel. diff {worst:.2e}")


def _dispatch(job):
    return globals()[job[0]](job[1])


def main(tier):
    shadow.load()
    run = Run(PID, tier, design_ref='DESIGN.md §6 C07')
    run.functions.update(shadow.func_lines(
        'emg3d/simulations.py', ['gradient', 'misfit', '_bcompute',
                                 '_get_rfield', 'compute', '_compute']))
    run.functions.update(shadow.func_lines(
        'emg3d/maps.py', ['interp_edges_to_vol_averages']))
    run.extra['hashes'] = {k: v for k, v in shadow.hashes().items()
                           if k in ('emg3d/simulations.py', 'emg3d/maps.py',
                                    'emg3d/electrodes.py')}
    if tier == 'quick':
        cases = [('ee', 'iso', 'Conductivity', False, False),
                 ('ee', 'VTI', 'LgResistivity', False, False),
                 ('ee', 'HTI', 'Resistivity', False, False),
                 ('ee', 'triaxial', 'LnConductivity', False, False),
                 ('eee', 'iso', 'Resistivity', True, False),
                 ('ee', 'iso', 'LgConductivity', False, True),
                 ('ee', 'VTI', 'LnResistivity', False, False),
                 ('me', 'iso', 'Conductivity', False, False),
                 ('mem', 'iso', 'Resistivity', False, False)]
    else:
        maps_ = ['Conductivity', 'LgConductivity', 'LnConductivity',
                 'Resistivity', 'LgResistivity', 'LnResistivity']
        cases = [('ee', a, m, False, False)
                 for a in ('iso', 'VTI', 'HTI', 'triaxial') for m in maps_]
        cases += [('me', 'iso', 'Conductivity', False, False),
                  ('mem', 'VTI', 'Resistivity', False, False),
                  ('eee', 'iso', 'Resistivity', True, False),
                  ('ee', 'VTI', 'Conductivity', True, True),
                  ('ee', 'iso', 'LgConductivity', False, True)]
    obs = pmap(_dispatch, [('case_gradient', x) for x in cases])
    run.add(obs)
    run.bounds = dict(cases=cases, grid="4x4x3 stretched", sources="1-2",
                      receivers="2-3 electric points (one source-relative),"
                      " one NaN datum", frequencies=1)
    run.assumptions = [
        "adjoint-state theorem (stated in the module docstring) with exact "
        "solves; operator symmetry (C02), P = point-vector^T (C09), misfit "
        "formula (C13) are the other checks' claims",
        "emg3d.solve is an uninterpreted function of (model, source field, "
        "tol): E and lambda are arbitrary symbolic complex fields",
        "frequency domain; computational grid == model grid; linear "
        "receiver interpolation; electric receivers (magnetic receivers: "
        "C09's transpose)",
        "exp/log of the mappings are axiomatised (C14)",
    ]
    run.stubs = ["emg3d.solve / solve_source -> uninterpreted function",
                 "process_map -> sequential map",
                 "get_receiver(linear) -> C09's trilinear interpolant"]
    run.outside = ["solver tolerance", "cubic receiver interpolation",
                   "gridding != 'same' (C08/C15)", "Laplace domain",
                   "magnetic receivers/sources in the adjoint source"]
    run.explanation = (
        "A real (shadow) Simulation is driven through compute, misfit and "
        "gradient with symbolic data, model and solver outputs; z3 decides "
        "that the adjoint source and the assembled gradient are exactly the "
        "expressions the adjoint-state theorem requires, entry by entry, "
        "for every anisotropy case and mapping.")
    for o in obs[:3]:
        run.sample(dict(group=o['group'], label=o['label'][:200],
                        verdict=o['verdict'], note=o['note']))
    return run.finish(replay)
