"""C17 — save and load round-trip (transformation layers).

Real code (shadow): io._dict_serialize, _dict_deserialize, _nonetype_to_none,
_dict_flatten, _dict_unflatten, _dict_dearray_decomp, _dict_array_comp,
executed on nested dictionaries whose KEYS are symbolic strings (z3 String);
the three back ends (np.savez/np.load, json, h5py) are contract stubs that
return what they are given.  Plus to_dict/from_dict of Field and Model on
symbolic array content, and a concrete round trip of composite objects
through the real files (dtypes, ordering) in all formats and conversions.
"""
import os
import time
import shutil
import tempfile
import itertools
import warnings

import numpy as np
import z3

import symx
from symx import Q, B, SStr, Ctx, set_ctx, sym_array, State, shadow, \
    Inconclusive
from .common import ob, Run, pmap

PID = 'C17'
VALUES = {
    'int': 3, 'float': 2.5, 'bool': True, 'none': None, 'str': 'txt',
    'real_array': np.array([[1., 2.], [3., 4.]]),
    'int_array': np.array([1, 2, 3]),
    'complex_array': np.array([1+2j, 3-1j]),
    'complex': 1.5-2j, 'npfloat': np.float64(0.25), 'npint': np.int64(7),
}


def structures():
    """Nested dict templates: lists of (path of key ids, value kind)."""
    return {
        'flat2': [((0,), 'int'), ((1,), 'real_array')],
        'nest2': [((0, 1), 'float'), ((2,), 'complex_array')],
        'nest3': [((0, 1, 2), 'bool'), ((0, 1, 3), 'str')],
        'siblings': [((0, 1), 'none'), ((0, 2), 'complex'), ((3,), 'int')],
        'two_dicts': [((0, 1), 'npfloat'), ((2, 3), 'int_array')],
        'np_scalars': [((0,), 'npint'), ((1, 2), 'npfloat')],
    }


def build(keys, template):
    d = {}
    for path, kind in template:
        cur = d
        for kid in path[:-1]:
            k = keys[kid]
            found = None
            for kk in cur:
                if kk is k:
                    found = kk
            if found is None:
                cur[k] = {}
            cur = cur[k]
        cur[keys[path[-1]]] = VALUES[kind]
    return d


def siblings(template):
    """Pairs of key ids that live in the same dict (must differ)."""
    groups = {}
    for path, _ in template:
        for depth in range(len(path)):
            groups.setdefault(path[:depth], set()).add(path[depth])
    pairs = set()
    for g in groups.values():
        for a, b in itertools.combinations(sorted(g), 2):
            pairs.add((a, b))
    return pairs


def value_equal(a, b):
    if isinstance(a, np.ndarray) or isinstance(b, np.ndarray):
        a, b = np.asarray(a), np.asarray(b)
        if a.shape != b.shape:
            return a.shape == () and b.shape == () and a == b
        return bool(np.array_equal(a, b)) and (
            a.dtype == b.dtype or a.shape == ())
    if a is None or b is None:
        return a is b
    if isinstance(a, bool) or isinstance(b, bool):
        return bool(a) == bool(b) and isinstance(b, (bool, np.bool_))
    return a == b


def deep_equal(c, a, b):
    """a, b nested dicts with (symbolic) string keys; solver-checked."""
    if isinstance(a, dict) != isinstance(b, dict):
        return False, 'dict vs value'
    if not isinstance(a, dict):
        return (True, '') if value_equal(a, b) else (
            False, f"value {a!r} vs {b!r}")
    if len(a) != len(b):
        return False, f"{len(a)} keys vs {len(b)} keys"
    used = set()
    for ka, va in a.items():
        hit = None
        for i, (kb, vb) in enumerate(b.items()):
            if i in used:
                continue
            ta, tb = SStr._co(ka), SStr._co(kb)
            if z3.simplify(ta.t).eq(z3.simplify(tb.t)):
                v = 'held'
            else:
                v, _ = c.valid(ta.t == tb.t, label='key eq',
                               timeout_ms=20000)
            if v == 'held':
                hit = (i, vb)
                break
        if hit is None:
            return False, f"key {ka!r} missing"
        used.add(hit[0])
        ok, why = deep_equal(c, va, hit[1])
        if not ok:
            return False, why
    return True, ''


def npz_backend(flat):
    """np.savez_compressed + np.load contract: every value comes back as an
    ndarray under the same key (keys are file names inside the zip)."""
    return {k: np.asarray(v) for k, v in flat.items()}


def json_backend(obj):
    """json.dump/json.load contract: str/int/float/bool/None/list and dicts
    with str keys come back unchanged (tuples as lists)."""
    if isinstance(obj, dict):
        return {k: json_backend(v) for k, v in obj.items()}
    if isinstance(obj, (list, tuple)):
        return [json_backend(v) for v in obj]
    if isinstance(obj, (np.ndarray, np.generic, complex)):
        raise TypeError(f"not JSON serializable: {type(obj)}")
    return obj


def symgetattr(obj, name, *default):
    if isinstance(name, SStr):
        v = name.concrete()
        if v is None:
            c = symx.ctx()
            r, m = c.check(label='getattr name')
            if r != 'sat':
                raise Inconclusive("getattr: no model")
            val = m.eval(name.t, model_completion=True)
            vv, _ = c.valid(name.t == val, label='getattr unique')
            if vv != 'held':
                raise AttributeError("attribute name is controlled by a "
                                     "symbolic key")
            v = val.as_string()
        name = v
    return getattr(obj, name, *default)


def pipeline(E, fmt, d):
    io = E.io
    data = io._dict_serialize(d)
    if fmt == 'npz':
        back = io._dict_unflatten(npz_backend(io._dict_flatten(data)))
    elif fmt == 'json':
        back = io._dict_array_comp(json_backend(
            io._dict_dearray_decomp(data)))
    else:
        back = data          # h5py dump/load: contract stub (identity)
    io._nonetype_to_none(back)
    io._dict_deserialize(back)
    return back


def case_layers(case):
    sname, fmt, relax = case
    E = shadow.load()
    c = set_ctx(Ctx(timeout_ms=60000 if relax != 'separator' else 5000))
    State.OBJECT_ALLOC = False
    E.io.str = symx.symstr
    E.io.getattr = symgetattr
    template = structures()[sname]
    nkeys = 1+max(k for path, _ in template for k in path)
    keys = [SStr.var(f"k{i}") for i in range(nkeys)]
    maxlen = 4 if relax != 'separator' else 2
    for k in keys:
        c.assume(B(z3.And(z3.Length(k.t) >= 1, z3.Length(k.t) <= maxlen)))
    for a, b in siblings(template):
        c.assume(B(keys[a].t != keys[b].t))
    if relax != 'separator':
        for k in keys:
            # precondition of the held claim: no separator characters
            c.assume(B(z3.And(
                z3.Not(z3.Contains(k.t, z3.StringVal('>'))),
                z3.Not(z3.Contains(k.t, z3.StringVal('_'))))))
            c.str_free[k.t.get_id()] = {'>', '_'}
    grp = f"layers fmt={fmt} structure={sname} relax={relax}"
    bad = None
    npaths = 0
    t0 = time.time()
    try:
        def path():
            d = build(keys, template)
            try:
                back = pipeline(E, fmt, d)
            except (AttributeError, TypeError, ValueError, KeyError,
                    IndexError) as e:
                return d, ('raise', repr(e)[:120])
            return d, back
        for (d, back), pc, tr in c.explore(
                path, budget_s=600 if relax != 'separator' else 60,
                max_paths=3000):
            npaths += 1
            c.pc = pc
            if isinstance(back, tuple):
                r, m = c.check(label='w')
                if r == 'unsat':
                    continue
                bad = (f"raises {back[1]}", m)
                break
            ok, why = deep_equal(c, d, back)
            if not ok:
                r, m = c.check(label='w')
                if r == 'unsat':
                    continue
                bad = (why, m)
                break
    except Inconclusive as e:
        if relax == 'separator':
            return []       # discovery run only: nothing found in budget
        return [ob("exploration", 'unknown', group=grp, cls='STR',
                   note=str(e))]
    dt = time.time()-t0
    if relax == 'separator' and not bad:
        return []
    if bad:
        why, m = bad
        kv = None
        if m is not None:
            kv = [m.eval(k.t, model_completion=True).as_string()
                  for k in keys]
        sep = {'npz': "'>'", 'json': "'__array' / '__complex'"}.get(fmt, '')
        return [ob("round trip through the transformation layers", 'cex',
                   group=grp, cls='STR', seconds=dt, note=why,
                   key=(f"{fmt}: keys containing {sep} do not round-trip"
                        if relax == 'separator' else
                        f"{fmt}: nested dict does not round-trip ({sname})"),
                   cex=dict(kind='layers', fmt=fmt, structure=sname,
                            keys=kv, why=why))]
    return [ob(f"{npaths} paths: load-side layers invert the save-side "
               f"layers for every choice of keys (length 1..4"
               f"{'' if relax == 'separator' else ', no separator in keys'}"
               f")", 'held', group=grp, cls='STR', seconds=dt),
            ob("twin", 'twin_sat' if npaths >= 1 else 'twin_unsat',
               group=grp, cls='STR', nontrivial=False)]


def case_lemmas(_):
    """String lemmas behind the syntactic split/contains (bounded)."""
    c = set_ctx(Ctx(timeout_ms=120000))
    a, b = z3.String('a'), z3.String('b')
    obs = []
    for sep, bound in (('>', 4), ('__', 2)):
        ch = sep[0]
        pre = z3.And(z3.Length(a) <= bound, z3.Length(b) <= bound,
                     z3.Not(z3.Contains(a, z3.StringVal(ch))),
                     z3.Not(z3.Contains(b, z3.StringVal(ch))))
        w = z3.Concat(a, z3.StringVal(sep), b)
        t1 = time.time()
        v, m = c.valid(z3.Implies(pre, z3.And(
            z3.IndexOf(w, z3.StringVal(sep), 0) == z3.Length(a),
            z3.Not(z3.Contains(a, z3.StringVal(sep))),
            z3.Not(z3.Contains(b, z3.StringVal(sep))))), label='lemma')
        obs.append(ob(f"lemma: for a, b free of '{ch}' (len <= {bound}) the first "
                      f"'{sep}' in a+'{sep}'+b is at len(a) and neither "
                      f"part contains it (split is syntactic)", v,
                      group='string lemmas', cls='STR',
                      seconds=time.time()-t1))
    return obs


def case_realistic_keys(_):
    """Concrete keys as emg3d itself uses them (single underscores)."""
    E = shadow.load()
    c = set_ctx(Ctx())
    State.OBJECT_ALLOC = False
    d = {'property_x': np.arange(4.).reshape(2, 2), 'mu_r': None,
         '_version': 'v1', 'data': {'_noise_floor': np.array([1., 2.]),
                                    'observed': np.array([1+1j, 2-1j]),
                                    'standard_deviation': 0.5},
         'a-b.c d': {'x y': True, 'z': 3}}
    bad = []
    for fmt in ('npz', 'json', 'h5'):
        back = pipeline(E, fmt, d)
        ok, why = deep_equal(c, d, back)
        if not ok:
            bad.append(f"{fmt}: {why}")
    return [ob("dictionary with emg3d's own key names (single underscores, "
               "dots, blanks, dashes) passes all three pipelines (concrete)",
               'held' if not bad else 'cex', cls='concrete',
               group='realistic keys', nontrivial=False,
               note='; '.join(bad),
               key="transformation layers break emg3d's own key names",
               cex=dict(kind='realistic') if bad else None)]


def case_empty(fmt):
    """{'a': {}} (an empty nested dict)."""
    E = shadow.load()
    c = set_ctx(Ctx())
    State.OBJECT_ALLOC = False
    d = {'a': {}, 'b': 1}
    back = pipeline(E, fmt, {'a': {}, 'b': 1})
    ok, why = deep_equal(c, d, back)
    return [ob("empty nested dict survives", 'held' if ok else 'cex',
               cls='concrete', group=f"empty dict fmt={fmt}",
               nontrivial=False, note=why,
               key=f"{fmt}: an empty nested dict is dropped",
               cex=dict(kind='empty', fmt=fmt) if not ok else None)]


def case_classes(name):
    """to_dict / from_dict of Field and Model keep symbolic content."""
    E = shadow.load()
    c = set_ctx(Ctx())
    State.OBJECT_ALLOC = True
    grid = E.meshes.TensorMesh([np.array([1., 2.]), np.array([1., 1.]),
                                np.array([2., 1.])], (0, 0, 0))
    grp = f"to_dict/from_dict {name}"
    if name == 'Field':
        data = sym_array('f', grid.n_edges)
        objs = []
        for freq in (None, 1.5, -2.0):
            State.OBJECT_ALLOC = True
            f = E.fields.Field(grid, data=data) if freq is None else None
            if f is None:
                f = E.fields.Field(grid, frequency=freq)
                f._field = data.copy()
            g = E.fields.Field.from_dict(f.to_dict(copy=True))
            same = all(a is b or (isinstance(a, Q) and a.t.eq(b.t))
                       for a, b in zip(f.field, g.field))
            objs.append(same and g._frequency == f._frequency and
                        g.electric == f.electric and g.field is not f.field)
        ok = all(objs)
    else:
        ok = True
        for mapping in ('Resistivity', 'LgConductivity'):
            px = sym_array('px', grid.shape_cells, positive=True)
            pz = sym_array('pz', grid.shape_cells, positive=True)
            mu = sym_array('mu', grid.shape_cells, positive=True)
            m1 = E.models.Model(grid, property_x=px, property_z=pz, mu_r=mu,
                                mapping=mapping)
            m2 = E.models.Model.from_dict(m1.to_dict(copy=True))
            for nm in ('property_x', 'property_y', 'property_z', 'mu_r',
                       'epsilon_r'):
                a, b = getattr(m1, nm), getattr(m2, nm)
                if (a is None) != (b is None):
                    ok = False
                elif a is not None:
                    ok &= all(x.t.eq(y.t) for x, y in zip(a.flat, b.flat))
                    ok &= a is not b
            ok &= m2.map.name == m1.map.name and m2.case == m1.case
    return [ob(f"{name}.from_dict(to_dict(copy=True)) has identical "
               f"symbolic content, settings, and owns its arrays", 'held' if
               ok else 'cex', cls='LIN', group=grp,
               key=f"{name} to_dict/from_dict loses or shares content",
               cex=dict(kind='classes', name=name) if not ok else None)]


# --------------------------------------------------------------------------
def _concrete_files():
    """Concrete round trip of composite objects through the real files."""
    import emg3d
    msgs = []
    tmp = tempfile.mkdtemp(prefix='c17_')
    try:
        rng = np.random.default_rng(1)
        grid = emg3d.TensorMesh([np.ones(4)*10, np.ones(4)*10,
                                 np.ones(4)*10], (0, 0, 0))
        model = emg3d.Model(grid, property_x=rng.uniform(1, 2,
                                                         grid.shape_cells),
                            property_z=rng.uniform(1, 2, grid.shape_cells),
                            mapping='LgResistivity')
        src = [emg3d.TxElectricDipole((5, 5, 5, 10, 20), strength=2+1j),
               emg3d.TxMagneticDipole((15, 5, 5, 0, 0)),
               emg3d.TxElectricWire(np.array([[1, 1, 1], [5, 2, 3],
                                              [9, 9, 9.]]))]
        rec = [emg3d.RxMagneticPoint((25, 25, 5, 0, 0)),
               emg3d.RxElectricPoint((30, 20, 5, 0, 0)),
               emg3d.RxElectricPoint((1, 2, 3, 0, 0), relative=True)]
        data = rng.normal(size=(3, 3, 2))+1j*rng.normal(size=(3, 3, 2))
        data[0, 1, 0] = np.nan
        survey = emg3d.Survey(src, rec, (1.0, 0.5), data=data,
                              noise_floor=rng.uniform(.1, 1, (3, 1, 1)),
                              relative_error=0.05, name='S')
        survey.standard_deviation = rng.uniform(.1, 1, (3, 3, 2))
        field = emg3d.Field(grid, rng.normal(size=grid.n_edges),
                            frequency=-3.0)
        objs = dict(model=model, survey=survey, field=field, grid=grid,
                    nested=dict(b=2, a=dict(z=np.arange(3), y=None,
                                            x=True, w='s', v=1+2j)))

        def check(tag, out):
            if out['model'] != model:
                msgs.append(f"{tag}: model differs")
            if out['field'] != field or \
                    out['field'].field.dtype != field.field.dtype:
                msgs.append(f"{tag}: field differs")
            s2 = out['survey']
            if list(s2.sources) != list(survey.sources) or \
                    list(s2.receivers) != list(survey.receivers):
                msgs.append(f"{tag}: source/receiver order differs")
            for k in ('observed', 'standard_deviation', '_noise_floor'):
                a, b = survey.data[k], s2.data[k]
                if a.dtype != b.dtype:
                    msgs.append(f"{tag}: dtype of {k} {b.dtype} vs "
                                f"{a.dtype}")
                for rn in survey.receivers:
                    for sn in survey.sources:
                        x = a.sel(src=sn, rec=rn).data
                        y = b.sel(src=sn, rec=rn).data
                        if not np.array_equal(x, y, equal_nan=True):
                            msgs.append(f"{tag}: {k}[{sn},{rn}] differs")
                            break
            if s2.relative_error != survey.relative_error:
                msgs.append(f"{tag}: relative_error differs")
            n2 = out['nested']
            if list(n2) != ['b', 'a'] and set(n2) != {'a', 'b'}:
                msgs.append(f"{tag}: nested keys {list(n2)}")
            na = n2['a']
            if na['y'] is not None or na['x'] is not True or \
                    na['w'] != 's' or complex(na['v']) != 1+2j or \
                    not np.array_equal(na['z'], np.arange(3)):
                msgs.append(f"{tag}: nested values differ")
        files = {}
        for ext in ('h5', 'npz', 'json'):
            fn = os.path.join(tmp, f"a.{ext}")
            emg3d.save(fn, **objs, verb=0)
            files[ext] = fn
            check(ext, emg3d.load(fn, verb=0))
        for a, b in itertools.permutations(('h5', 'npz', 'json'), 2):
            fn = os.path.join(tmp, f"conv_{a}.{b}")
            emg3d.io.convert(files[a], fn, verb=0)
            check(f"{a}->{b}", emg3d.load(fn, verb=0))
    finally:
        shutil.rmtree(tmp, ignore_errors=True)
    return msgs


def _concrete_simulation():
    """Concrete round trip of a Simulation with computed results (fields,
    responses, misfit, gradient) and of a plain one, through real files."""
    import emg3d
    import warnings
    warnings.filterwarnings('ignore')
    msgs = []
    tmp = tempfile.mkdtemp(prefix='c17s_')
    try:
        rng = np.random.default_rng(5)
        grid = emg3d.TensorMesh([np.array([2., 1., 1., 2.])*100]*3,
                                (0, 0, 0))
        src = [emg3d.TxElectricDipole((250., 250., 250., 20., 10.))]
        rec = [emg3d.RxElectricPoint((225., 350., 300., 0., 0.)),
               emg3d.RxMagneticPoint((275., 325., 325., 30., 10.))]
        model = emg3d.Model(grid, property_x=rng.uniform(
            .5, 2, grid.shape_cells), mapping='Conductivity')
        data = (rng.normal(size=(1, 2, 1))+1j*rng.normal(size=(1, 2, 1)))*1e-9
        survey = emg3d.Survey(src, rec, [1.0], data=data, noise_floor=1e-10)
        sim = emg3d.Simulation(
            survey, model, gridding='same', max_workers=1, verb=-1,
            receiver_interpolation='linear', tqdm_opts=False,
            solver_opts=dict(tol=1e-8))
        plain = sim.copy()
        mis = float(sim.misfit)
        grad = np.array(sim.gradient)
        syn = sim.data.synthetic.data.copy()
        ef = sim.get_efield('TxED-1', 'f-1').field.copy()
        for ext in ('h5', 'npz', 'json'):
            fn = os.path.join(tmp, f"sim.{ext}")
            for what, s_ in (('all', sim), ('computed', sim),
                             ('plain', plain)):
                tag = f"{ext} what={what}"
                try:
                    s_.to_file(fn, what=what, verb=0)
                    s2 = emg3d.Simulation.from_file(fn, verb=0)
                except Exception as e:      # noqa
                    msgs.append(f"{tag}: {e!r}"[:160])
                    continue
                if s2.model != s_.model or s2.survey.shape != \
                        s_.survey.shape:
                    msgs.append(f"{tag}: model/survey differ")
                if what == 'plain':
                    continue
                try:
                    m2 = s2.misfit
                    if not isinstance(m2, (float, np.floating, np.ndarray)) \
                            or not np.isclose(float(m2), mis, rtol=1e-12,
                                              atol=0):
                        msgs.append(f"{tag}: loaded misfit is {m2!r}, "
                                    f"saved {mis!r}")
                    if not np.array_equal(np.array(s2.gradient), grad):
                        msgs.append(f"{tag}: gradient differs")
                    if not np.array_equal(s2.data.synthetic.data, syn):
                        msgs.append(f"{tag}: synthetic data differ")
                    if not np.array_equal(
                            s2.get_efield('TxED-1', 'f-1').field, ef):
                        msgs.append(f"{tag}: electric field differs")
                except Exception as e:      # noqa
                    msgs.append(f"{tag}: using the loaded simulation raised "
                                f"{e!r}"[:200])
    finally:
        shutil.rmtree(tmp, ignore_errors=True)
    return msgs


def concrete_simulation():
    import contextlib
    import io as _io
    with contextlib.redirect_stdout(_io.StringIO()):
        return _concrete_simulation()


def concrete_files():
    import contextlib
    import io as _io
    with contextlib.redirect_stdout(_io.StringIO()):
        return _concrete_files()


def replay(cex):
    import emg3d
    kind = cex['kind']
    tmp = tempfile.mkdtemp(prefix='c17r_')
    try:
        if kind in ('layers', 'empty'):
            fmt = cex['fmt']
            if fmt == 'h5':
                return False, 'h5 back end is a stub'
            if kind == 'empty':
                d = {'a': {}, 'b': 1}
            else:
                keys = cex.get('keys')
                if not keys:
                    return False, 'no witness keys'
                d = build(keys, structures()[cex['structure']])
            fn = os.path.join(tmp, f"x.{fmt}")
            try:
                emg3d.save(fn, **d, verb=0)
                out = emg3d.load(fn, verb=0)
            except Exception as e:     # noqa
                return True, (f"real save/load ({fmt}) of {d!r} raised "
                              f"{e!r}"[:300])
            for k in ('_version', '_date', '_format'):
                out.pop(k, None)
            set_ctx(Ctx())
            ok, why = deep_equal(symx.ctx(), d, out)
            return not ok, (f"real save/load ({fmt}) of {d!r} returns "
                            f"{out!r}: {why}"[:400])
        if kind == 'realistic':
            d = {'property_x': np.arange(4.).reshape(2, 2), 'mu_r': None,
                 'data': {'_noise_floor': np.array([1., 2.]),
                          'observed': np.array([1+1j, 2-1j])}}
            msgs = []
            for fmt in ('npz', 'json', 'h5'):
                fn = os.path.join(tmp, f"r.{fmt}")
                emg3d.save(fn, **d, verb=0)
                out = emg3d.load(fn, verb=0)
                set_ctx(Ctx())
                for k in ('_version', '_date', '_format'):
                    out.pop(k, None)
                ok, why = deep_equal(symx.ctx(), d, out)
                if not ok:
                    msgs.append(f"{fmt}: {why}")
            return bool(msgs), '; '.join(msgs) or 'round trip ok'
        if kind == 'simfiles':
            msgs = concrete_simulation()
            return bool(msgs), '; '.join(msgs[:4]) or 'all equal'
        if kind == 'files':
            msgs = concrete_files()
            return bool(msgs), '; '.join(msgs[:4]) or 'all equal'
        if kind == 'classes':
            return True, 'structural (symbolic content lost)'
    finally:
        shutil.rmtree(tmp, ignore_errors=True)
    return False, 'unknown kind'


def _dispatch(job):
    return globals()[job[0]](job[1])


def main(tier):
    shadow.load()
    warnings.filterwarnings('ignore')
    run = Run(PID, tier, design_ref='DESIGN.md §6 C17')
    run.functions.update(shadow.func_lines(
        'emg3d/io.py', ['_dict_serialize', '_dict_deserialize',
                        '_nonetype_to_none', '_dict_flatten',
                        '_dict_unflatten', '_dict_dearray_decomp',
                        '_dict_array_comp']))
    run.extra['hashes'] = {k: v for k, v in shadow.hashes().items()
                           if k == 'emg3d/io.py'}
    jobs = []
    snames = list(structures())
    for fmt in ('npz', 'json', 'h5'):
        for sn in snames:
            jobs.append(('case_layers', (sn, fmt, 'none')))
    for fmt in ('npz', 'json'):
        jobs.append(('case_layers', ('nest2' if fmt == 'npz' else 'flat2',
                                     fmt, 'separator')))
        jobs.append(('case_empty', fmt))
    jobs.append(('case_realistic_keys', None))
    jobs += [('case_classes', 'Field'), ('case_classes', 'Model'),
             ('case_lemmas', None)]
    obs = pmap(_dispatch, jobs)
    run.add(obs)
    t0 = time.time()
    msgs = concrete_files()
    run.add(ob("concrete: model + survey (mixed Tx/Rx types, NaN datum, "
               "array noise floor, explicit std) + field + nested dict "
               "saved/loaded in h5, npz, json and all six conversions: "
               "equal objects, dtypes, order", 'held' if not msgs else 'cex',
               cls='concrete', group='files', nontrivial=False,
               seconds=time.time()-t0, note='; '.join(msgs[:3]),
               key="file round trip of composite objects differs",
               cex=dict(kind='files') if msgs else None))
    t0 = time.time()
    msgs = concrete_simulation()
    run.add(ob("concrete: a Simulation with computed fields, responses, "
               "misfit and gradient (and a plain copy) saved with "
               "what=all/computed/plain and loaded again in h5, npz, json: "
               "usable, equal misfit, gradient, data, fields",
               'held' if not msgs else 'cex', cls='concrete', group='files',
               nontrivial=False, seconds=time.time()-t0,
               note='; '.join(msgs[:4]),
               key="file round trip of a computed simulation differs",
               cex=dict(kind='simfiles') if msgs else None))
    run.bounds = dict(structures=snames, key_length="1..4 characters, any "
                      "characters", depth="<= 3", value_kinds=list(VALUES))
    run.assumptions = [
        "back-end contracts: np.savez/np.load return every value as ndarray "
        "under its key; json returns str/int/float/bool/None/list/dict "
        "unchanged; h5py dump/load is the identity (stub)",
        "keys within one dict are distinct; keys are non-empty",
        "documented limitations of _dict_serialize are preconditions: keys "
        "become str, the string 'NoneType' becomes None",
        "precondition of the held (symbolic-key) claim: keys contain neither "
        "'>' nor '_'; emg3d's own key names with single underscores are "
        "run concretely through the same pipelines; the relaxed discovery "
        "run lets the solver construct keys that break the round trip "
        "(known findings)",
    ]
    run.stubs = ["np.savez_compressed/np.load, json.dump/json.load, h5py",
                 "builtins.str / getattr inside emg3d.io -> symbolic-aware"]
    run.outside = ["HDF5 layer (_hdf5_dump/_hdf5_load) symbolically",
                   "to_dict/from_dict of Survey/Simulation beyond the "
                   "concrete file round trip (Survey content: C13)"]
    run.explanation = (
        "The save-side and load-side transformation layers of emg3d.io are "
        "executed on nested dicts whose keys are z3 strings; dictionary "
        "look-ups, split('>'), '__array' tests fork on string constraints; "
        "per path z3 decides that every key/value of the input is found in "
        "the output.  Relaxing the separator precondition lets the solver "
        "construct the keys that break the round trip (replayed through "
        "real files).")
    for o in obs[:3]:
        run.sample(dict(group=o['group'], label=o['label'][:200],
                        verdict=o['verdict'], note=o['note']))
    return run.finish(replay)
