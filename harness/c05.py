"""C05 — grid hierarchy and V/W/F cycling are well-formed.

Real code (shadow): solver.MGParameters (_max_level, _semicoarsening,
_linerelaxation, _solver_and_cycle), solver._current_sc_dir,
solver._current_lr_dir, solver.smoothing (dispatch), solver.multigrid,
solver._terminate.  Grid shapes are symbolic integers (z3 Int); numerics are
stubbed.  The recorded event trace is compared, per path, with a textbook
V/W/F recursion written from the property statement.
"""
import time
import itertools

import numpy as np
import z3

import symx
from symx import Z, B, Ctx, set_ctx, State, shadow, Inconclusive
from .common import ob, Run, pmap, seed

PID = 'C05'
SETS_SC = {frozenset('xyz'): 0, frozenset('yz'): 1, frozenset('xz'): 2,
           frozenset('xy'): 3, frozenset('x'): 4, frozenset('y'): 5,
           frozenset('z'): 6}
LR_DIRS = {0: '', 1: 'x', 2: 'y', 3: 'z', 4: 'yz', 5: 'xz', 6: 'xy',
           7: 'xyz'}
NU = dict(nu_init=0, nu_pre=2, nu_coarse=5, nu_post=3)


class _Duck:
    pass


class Abort(Exception):
    pass


def _digits(v, default):
    if v is True:
        return list(default)
    if v is False:
        return [0]
    return [int(x) for x in str(abs(int(v)))]


# --------------------------------------------------------------------------
# driver: run the (shadow or real) solver.multigrid with recording stubs
# --------------------------------------------------------------------------
def _event_bound(shape, cfg):
    """Termination bound derived from the textbook recursion: a W-cycle
    visits level l at most 2**l times per cycle; every visit smooths at
    most twice (pre/post) with at most three kernels.  (A fixed bound of
    4000 events raised a false alarm for W-cycles on 1024-cell directions
    in the thorough tier.)"""
    nmax = 2
    for n in shape:
        try:
            nmax = max(nmax, int(n))
        except Exception:     # noqa  (symbolic shape: bounded by the case)
            nmax = max(nmax, 1024)
    depth = max(1, int(np.floor(np.log2(nmax))))
    maxit = int(cfg.get('maxit', 3) or 3) if isinstance(cfg, dict) else 3
    return 4000 + maxit*2*3*2**(depth+2)


def run_code(S, shape, cfg, max_events=None):
    """Return (events, var) of S.multigrid on `shape` with numerics stubbed.

    events: ('S', kernel, shape, nu) / ('R', sc_dir, shape) / ('P', sc_dir)
            / ('C',) at the end of each fine-grid cycle.
    """
    events = []
    core = S.core
    saved = {}
    if max_events is None:
        max_events = _event_bound(shape, cfg)

    def rec_kernel(name):
        def k(ex, ey, ez, sx, sy, sz, a, b, c, d, hx, hy, hz, nu):
            events.append(('S', name, ex.shape, nu))
            if len(events) > max_events:
                raise Abort("event bound exceeded (non-termination?)")
        return k
    for name in ('gauss_seidel', 'gauss_seidel_x', 'gauss_seidel_y',
                 'gauss_seidel_z'):
        saved[(core, name)] = getattr(core, name)
        setattr(core, name, rec_kernel(name))

    def mk(shape):
        m = _Duck()
        m.grid = _Duck()
        m.grid.shape_cells = tuple(shape)
        m.grid.h = [None, None, None]
        m.eta_x = m.eta_y = m.eta_z = m.zeta = None
        f = _Duck()
        f.shape = tuple(shape)
        f.fx = f.fy = f.fz = f
        return m, f

    def restriction(model, sfield, res, sc_dir):
        shp = model.grid.shape_cells
        events.append(('R', int(sc_dir), shp))
        halve = {0: 'xyz', 1: 'yz', 2: 'xz', 3: 'xy', 4: 'x', 5: 'y',
                 6: 'z'}[int(sc_dir)]
        new = []
        for d, n in zip('xyz', shp):
            if d in halve:
                new.append(n // 2)      # shape contract of C04(iv)
            else:
                new.append(n)
        cm, cf = mk(new)
        return cm, cf, mk(new)[1]

    def prolongation(efield, cefield, sc_dir):
        events.append(('P', int(sc_dir)))

    norms = iter(1.0/(k+2) for k in range(10**6))

    def residual(model, sfield, efield, norm=False):
        if norm:
            return next(norms)
        return efield

    def cycle_info(var, l2_last, l2_prev):
        events.append(('C', int(var.sc_dir), int(var.lr_dir)))
    for name, fn in (('restriction', restriction),
                     ('prolongation', prolongation), ('residual', residual),
                     ('_print_cycle_info', cycle_info)):
        saved[(S, name)] = getattr(S, name)
        setattr(S, name, fn)
    try:
        var = S.MGParameters(
            verb=0, sslsolver='bicgstab' if cfg.get('precond') else False,
            semicoarsening=cfg['sc'],
            linerelaxation=cfg['lr'], shape_cells=tuple(shape),
            cycle=cfg['cycle'], maxit=cfg['maxit'], clevel=cfg['clevel'],
            tol=1e-30, log=-1, **NU)
        model, f = mk(shape)
        for _ in range(max(1, cfg.get('precond', 0))):
            # preconditioner mode: one call per Krylov iteration, each
            # running var.maxit (= pattern length) cycles on the same var
            S.multigrid(model, f, f, var)
    finally:
        for (mod, name), fn in saved.items():
            setattr(mod, name, fn)
    return events, var


# --------------------------------------------------------------------------
# reference: written from the property statement (textbook recursion)
# --------------------------------------------------------------------------
def _can_halve(n):
    return bool(n % 2 == 0) and bool(n > 2)


def _halvings(n, cap=64):
    k = 0
    while _can_halve(n) and k < cap:
        n = n // 2
        k += 1
    return k


def ref_trace(shape, cfg):
    sc_pat = _digits(cfg['sc'], (1, 2, 3))
    lr_pat = _digits(cfg['lr'], (4, 5, 6))
    user = cfg['clevel']
    kd = {d: _halvings(n) for d, n in zip('xyz', shape)}
    events = []

    def bottom(sc):
        dirs = [d for d in 'xyz' if sc == 0 or 'xyz'[sc-1] != d]
        L = max(kd[d] for d in dirs)
        if user >= 0:
            L = min(L, user)
        return L

    def smooth(shape, nu, lr):
        want = [f"gauss_seidel_{d}" for d, n in zip('xyz', shape)
                if d in LR_DIRS[lr] and bool(n > 2)]
        if not want:
            want = ['gauss_seidel']
        for k in want:
            events.append(('S', k, _eshape(shape), nu))

    def body(shape, level, mode, sc, lr, L):
        if level == L:
            smooth(shape, NU['nu_coarse'], lr)
            return
        if NU['nu_pre'] > 0:
            smooth(shape, NU['nu_pre'], lr)
        halve = frozenset(d for d, n in zip('xyz', shape)
                          if _can_halve(n) and (sc == 0 or 'xyz'[sc-1] != d))
        if not halve:
            raise Abort("reference: no admissible direction above bottom")
        events.append(('R', SETS_SC[halve], tuple(shape)))
        child = tuple(n // 2 if d in halve else n
                      for d, n in zip('xyz', shape))
        if level+1 == L or mode == 'V':
            body(child, level+1, mode, sc, lr, L)
        elif mode == 'W':
            body(child, level+1, 'W', sc, lr, L)
            body(child, level+1, 'W', sc, lr, L)
        else:
            body(child, level+1, 'F', sc, lr, L)
            body(child, level+1, 'V', sc, lr, L)
        events.append(('P', SETS_SC[halve]))
        if NU['nu_post'] > 0:
            smooth(shape, NU['nu_post'], lr)

    ncyc = cfg['maxit']
    if cfg.get('precond'):
        ncyc = cfg['precond']*max(len(sc_pat), len(lr_pat))
    for i in range(ncyc):
        sc = sc_pat[i % len(sc_pat)]
        lr = lr_pat[i % len(lr_pat)]
        body(tuple(shape), 0, cfg['cycle'], sc, lr, bottom(sc))
        events.append(('C', sc, lr))
    final = (sc_pat[ncyc % len(sc_pat)], lr_pat[ncyc % len(lr_pat)])
    return events, {sc: bottom(sc) for sc in range(4)}, kd, final


def _eshape(shape):
    """Shape of the ex array (cells x, nodes y, nodes z) as the stub sees."""
    return tuple(shape)


def _norm_events(ev):
    """Make events comparable: kernels get the cell shape."""
    out = []
    for e in ev:
        if e[0] == 'S':
            out.append(('S', e[1], tuple(e[2]), int(e[3])))
        elif e[0] == 'R':
            out.append(('R', e[1], tuple(e[2])))
        else:
            out.append(tuple(e))
    return out


def _same_shape(c, a, b):
    """Are two shapes (tuples of Z/int) provably equal under the PC?"""
    conj = []
    for x, y in zip(a, b):
        x, y = Z._co(x), Z._co(y)
        if x.c is not None and y.c is not None:
            if x.c != y.c:
                return False
        else:
            conj.append(x.t == y.t)
    if not conj:
        return True
    v, _ = c.valid(z3.And(*conj), label='shape eq')
    return v == 'held'


def compare(c, got, want):
    """First difference between code trace and reference, or None."""
    got, want = _norm_events(got), _norm_events(want)
    for i in range(max(len(got), len(want))):
        if i >= len(got):
            return i, None, want[i]
        if i >= len(want):
            return i, got[i], None
        g, w = got[i], want[i]
        if g[0] != w[0]:
            return i, g, w
        if g[0] == 'S':
            if g[1] != w[1] or g[3] != w[3] or not _same_shape(c, g[2], w[2]):
                return i, g, w
        elif g[0] == 'R':
            if g[1] != w[1] or not _same_shape(c, g[2], w[2]):
                return i, g, w
        elif g != w:
            return i, g, w
    return None


# --------------------------------------------------------------------------
def _kernel_shape_fix(S):
    """The recording kernels receive ex (None here); use the grid shape."""


def case_cycle(case):
    """Whole recursion for one configuration, symbolic shape in [2, N]."""
    cfg, N, fixed = case
    E = shadow.load()
    S = E.solver
    S.int = symx.symint
    c = set_ctx(Ctx(timeout_ms=60000))
    State.OBJECT_ALLOC = False
    names = 'xyz'
    shape = []
    for d in range(3):
        if fixed[d] is None:
            n = Z.var(f"n{names[d]}")
            c.assume(B(z3.And(n.t >= 2, n.t <= N)))
            shape.append(n)
        else:
            shape.append(fixed[d])
    shape = tuple(shape)
    grp = (f"cycle={cfg['cycle']} sc={cfg['sc']} lr={cfg['lr']} "
           f"clevel={cfg['clevel']} maxit={cfg['maxit']} "
           f"precond={cfg.get('precond', 0)} N={N} fixed={fixed}")
    obs = []
    stats = dict(paths=0, events=0, maxdepth=0)

    def one_path():
        # code under test
        try:
            got, var = run_code(_ShapeAware(S), shape, cfg)
        except Abort as e:
            return ('abort', str(e))
        want, bottoms, kd, final = ref_trace(shape, cfg)
        return ('ok', got, want, var, bottoms, kd, final)

    bad = None
    t0 = time.time()
    try:
        for res, pc, trace in c.explore(one_path, budget_s=1500):
            stats['paths'] += 1
            c.pc = pc        # queries below are under this path condition
            if res[0] == 'abort':
                bad = ('abort', res[1], _witness(c, shape))
                break
            _, got, want, var, bottoms, kd, final = res
            stats['events'] += len(got)
            if (int(var.sc_dir), int(var.lr_dir)) != final:
                bad = ('advance', f"after {cfg['maxit']} cycles sc/lr = "
                       f"{(int(var.sc_dir), int(var.lr_dir))}, expected "
                       f"{final}", _witness(c, shape))
                break
            diff = compare(c, got, want)
            if diff is not None:
                bad = ('trace', f"event {diff[0]}: code {diff[1]} vs "
                       f"reference {diff[2]}", _witness(c, shape))
                break
            # bottom level table == the one implied by shape/pattern/limit
            tab = [int(x) for x in var.clevel]
            if tab != [bottoms[k] for k in range(4)]:
                bad = ('clevel', f"var.clevel {tab} vs reference "
                       f"{[bottoms[k] for k in range(4)]}",
                       _witness(c, shape))
                break
            # header: per-direction levels and coarsest shape
            rc = var._repr_clevel
            hdr = [int(x) for x in rc['clevel']]
            want_hdr = [min(kd[d], cfg['clevel']) if cfg['clevel'] >= 0
                        else kd[d] for d in 'xyz']
            if hdr != want_hdr:
                bad = ('header', f"header clevel {hdr} vs {want_hdr}",
                       _witness(c, shape))
                break
            cs = [n // (2**k) for n, k in zip(shape, want_hdr)]
            if not _same_shape(c, rc['shape_cells'], cs):
                bad = ('header', "header coarsest shape differs",
                       _witness(c, shape))
                break
            # never fewer than two cells; halved dirs were even and > 2
            for e in got:
                if e[0] == 'R':
                    halve = {0: 'xyz', 1: 'yz', 2: 'xz', 3: 'xy', 4: 'x',
                             5: 'y', 6: 'z'}[e[1]]
                    conj = []
                    for d, n in zip('xyz', e[2]):
                        n = Z._co(n)
                        if d in halve:
                            conj.append(z3.And(n.t % 2 == 0, n.t > 2))
                        conj.append(n.t >= 2)
                    v, _ = c.valid(z3.And(*conj), label='halving')
                    if v != 'held':
                        bad = ('halving', f"restriction {e[1]} on a shape "
                               f"where a halved direction is not even/>2",
                               _witness(c, shape))
                        break
                if e[0] == 'S' and e[1] != 'gauss_seidel':
                    d = 'xyz'.index(e[1][-1])
                    n = Z._co(e[2][d])
                    v, _ = c.valid(n.t > 2, label='line>2')
                    if v != 'held':
                        bad = ('line2', f"{e[1]} along a two-cell direction",
                               _witness(c, shape))
                        break
            if bad:
                break
        exhaustive = bad is None
    except Inconclusive as e:
        obs.append(ob("path exploration", 'unknown', group=grp, cls='LIN',
                      note=str(e)))
        return obs
    dt = time.time()-t0
    if bad:
        kind, msg, wit = bad
        obs.append(ob(f"trace == textbook {cfg['cycle']}-cycle recursion",
                      'cex', group=grp, cls='LIN', seconds=dt, note=msg,
                      key=f"cycling {kind} cycle={cfg['cycle']} "
                          f"sc={cfg['sc']} lr={cfg['lr']} "
                          f"clevel={cfg['clevel']}",
                      cex=dict(kind='cycle', cfg=cfg, shape=wit, why=msg)))
    else:
        obs.append(ob(
            f"all {stats['paths']} shape classes: event trace == textbook "
            f"recursion; bottom/clevel/header; halving only even>2; no line "
            f"relaxation along 2 cells; sc/lr advance once per cycle", 'held',
            group=grp, cls='LIN', seconds=dt,
            note=f"paths={stats['paths']} events={stats['events']} "
                 f"queries={c.stats['queries']} "
                 f"solver_s={c.stats['solver_s']:.1f}"))
        obs.append(ob("twin: at least two shape classes reached the "
                      "assertions", 'twin_sat' if stats['paths'] >= 2 or
                      all(f is not None for f in fixed) else 'twin_unsat',
                      group=grp, cls='LIN', nontrivial=False))
    return obs


class _ShapeAware:
    """Module proxy: forwards to the solver module, but its kernels record
    the *grid* shape (the ex array is a placeholder)."""

    def __init__(self, S):
        object.__setattr__(self, '_S', S)

    def __getattr__(self, k):
        return getattr(object.__getattribute__(self, '_S'), k)

    def __setattr__(self, k, v):
        setattr(object.__getattribute__(self, '_S'), k, v)


def _witness(c, shape):
    r, m = c.check(label='witness')
    if r != 'sat':
        return None
    out = []
    for n in shape:
        n = Z._co(n)
        out.append(n.c if n.c is not None else
                   m.eval(n.t, model_completion=True).as_long())
    return out


def case_helpers(case):
    """_current_sc_dir / _current_lr_dir for unbounded n >= 2."""
    which, code = case
    E = shadow.load()
    S = E.solver
    c = set_ctx(Ctx())
    shape = tuple(Z.var(f"n{d}") for d in 'xyz')
    for n in shape:
        c.assume(B(n.t >= 2))
    grid = _Duck()
    grid.shape_cells = shape
    grp = f"{which} code={code} (n >= 2 unbounded)"
    npaths = 0
    bad = None

    def path():
        if which == 'sc':
            return int(S._current_sc_dir(code, grid))
        return int(S._current_lr_dir(code, grid))
    t0 = time.time()
    for res, pc, tr in c.explore(path, budget_s=300):
        npaths += 1
        c.pc = pc
        if which == 'sc':
            halve = {0: 'xyz', 1: 'yz', 2: 'xz', 3: 'xy', 4: 'x', 5: 'y',
                     6: 'z'}.get(res)
            if halve is None:
                bad = (res, 'invalid code')
                break
            conj = []
            for k, (d, n) in enumerate(zip('xyz', shape)):
                adm = z3.And(n.t % 2 == 0, n.t > 2,
                             z3.BoolVal(code != k+1))
                conj.append(adm if d in halve else z3.Not(adm))
            # result 6 is also the fall-through when nothing is admissible:
            # the property constrains it only when something is admissible
            anyadm = z3.Or(*[z3.And(n.t % 2 == 0, n.t > 2,
                                    z3.BoolVal(code != k+1))
                             for k, n in enumerate(shape)])
            v, m = c.valid(z3.Implies(anyadm, z3.And(*conj)), label='sc')
        else:
            want = frozenset(d for d in LR_DIRS[code])
            got = frozenset(LR_DIRS[res])
            conj = []
            for d, n in zip('xyz', shape):
                if d in want:
                    conj.append((n.t > 2) if d in got else (n.t == 2))
                else:
                    conj.append(z3.BoolVal(d not in got))
            v, m = c.valid(z3.And(*conj), label='lr')
        if v != 'held':
            wit = [m.eval(n.t, model_completion=True).as_long()
                   for n in shape] if m is not None else None
            bad = (res, v, wit)
            break
    dt = time.time()-t0
    if bad:
        verdict = 'cex' if bad[1] != 'unknown' else 'unknown'
        return [ob(f"{which} helper result characterisation", verdict,
                   group=grp, cls='LIN', seconds=dt, note=str(bad),
                   key=f"_current_{which}_dir wrong for code {code}",
                   cex=dict(kind='helper', which=which, code=code,
                            shape=bad[2] if len(bad) > 2 else None,
                            got=bad[0]))]
    return [ob(f"{npaths} paths: result is exactly the admissible set",
               'held', group=grp, cls='LIN', seconds=dt),
            ob("twin: several paths reached", 'twin_sat' if npaths >= 2
               else 'twin_unsat', group=grp, cls='LIN', nontrivial=False)]


def case_too_small(case):
    """MGParameters raises ValueError iff some n < 2 (n in [0, 8])."""
    E = shadow.load()
    S = E.solver
    S.int = symx.symint
    c = set_ctx(Ctx())
    shape = tuple(Z.var(f"n{d}") for d in 'xyz')
    for n in shape:
        c.assume(B(z3.And(n.t >= 0, n.t <= 8)))

    def path():
        try:
            S.MGParameters(verb=0, sslsolver=False, semicoarsening=0,
                           linerelaxation=0, shape_cells=shape, log=-1)
            return 'ok'
        except ValueError:
            return 'raise'
        except ZeroDivisionError:
            return 'zerodiv'
    bad = None
    npaths = 0
    t0 = time.time()
    for res, pc, tr in c.explore(path, budget_s=600):
        npaths += 1
        c.pc = pc
        small = z3.Or(*[n.t < 2 for n in shape])
        v, m = c.valid(small if res == 'raise' else z3.Not(small),
                       label='too small')
        if v != 'held':
            bad = (res, [m.eval(n.t, model_completion=True).as_long()
                         for n in shape] if m is not None else None)
            break
    grp = "MGParameters rejects n < 2"
    if bad:
        return [ob("ValueError iff some n < 2", 'cex', group=grp, cls='LIN',
                   seconds=time.time()-t0, note=str(bad),
                   key="MGParameters accepts/rejects wrong shapes",
                   cex=dict(kind='small', shape=bad[1], got=bad[0]))]
    return [ob(f"ValueError iff some n < 2 ({npaths} paths, 0<=n<=8)",
               'held', group=grp, cls='LIN', seconds=time.time()-t0)]


# --------------------------------------------------------------------------
def replay(cex):
    import emg3d
    kind = cex['kind']
    if kind == 'cycle':
        shape = cex.get('shape')
        if shape is None:
            return False, 'no witness shape'
        cfg = cex['cfg']
        set_ctx(Ctx())
        try:
            got, var = run_code(emg3d.solver, tuple(shape), cfg)
        except Abort as e:
            return True, f"real multigrid on {shape}: {e}"
        try:
            want, bottoms, kd, final = ref_trace(tuple(shape), cfg)
        except Abort as e:
            return True, f"reference aborted: {e}"
        diff = compare(symx.ctx(), got, want)
        if diff is None and (int(var.sc_dir), int(var.lr_dir)) != final:
            return True, (f"after {cfg['maxit']} cycles sc/lr = "
                          f"{(int(var.sc_dir), int(var.lr_dir))}, expected "
                          f"{final}")
        tab = [int(x) for x in var.clevel]
        if diff is None and tab == [bottoms[k] for k in range(4)]:
            hdr = [int(x) for x in var._repr_clevel['clevel']]
            want_hdr = [min(kd[d], cfg['clevel']) if cfg['clevel'] >= 0
                        else kd[d] for d in 'xyz']
            if hdr == want_hdr:
                return False, f"real multigrid on {shape} follows reference"
            return True, f"header clevel {hdr} vs {want_hdr} on {shape}"
        return True, (f"real emg3d.solver.multigrid on shape {shape}, "
                      f"{cfg}: " + (f"event {diff[0]}: code {diff[1]} vs "
                                    f"reference {diff[2]}" if diff else
                                    f"clevel {tab} vs {bottoms}"))
    if kind == 'helper':
        shape = cex.get('shape')
        if shape is None:
            return False, 'no witness'
        grid = _Duck()
        grid.shape_cells = tuple(shape)
        if cex['which'] == 'sc':
            got = int(emg3d.solver._current_sc_dir(cex['code'], grid))
            halve = frozenset(
                d for k, (d, n) in enumerate(zip('xyz', shape))
                if n % 2 == 0 and n > 2 and cex['code'] != k+1)
            want = SETS_SC.get(halve, got)
        else:
            got = int(emg3d.solver._current_lr_dir(cex['code'], grid))
            dirs = ''.join(d for d, n in zip('xyz', shape)
                           if d in LR_DIRS[cex['code']] and n > 2)
            want = [k for k, v in LR_DIRS.items() if v == dirs][0]
        return got != want, (f"real _current_{cex['which']}_dir("
                             f"{cex['code']}, {shape}) = {got}, expected "
                             f"{want}")
    if kind == 'small':
        shape = cex['shape']
        try:
            emg3d.solver.MGParameters(verb=0, sslsolver=False,
                                      semicoarsening=0, linerelaxation=0,
                                      shape_cells=tuple(shape))
            got = 'ok'
        except ValueError:
            got = 'raise'
        except ZeroDivisionError:
            got = 'zerodiv'
        want = 'raise' if min(shape) < 2 else 'ok'
        return got != want, f"MGParameters({shape}) -> {got}, want {want}"
    return False, 'unknown kind'


def _dispatch(job):
    return globals()[job[0]](job[1])


def main(tier):
    shadow.load()
    run = Run(PID, tier, design_ref='DESIGN.md §6 C05')
    run.functions.update(shadow.func_lines(
        'emg3d/solver.py', ['multigrid', 'MGParameters', '_current_sc_dir',
                            '_current_lr_dir', 'smoothing', '_terminate']))
    run.extra['hashes'] = {k: v for k, v in shadow.hashes().items()
                           if k == 'emg3d/solver.py'}
    jobs = []
    for code in range(4):
        jobs.append(('case_helpers', ('sc', code)))
    for code in range(8):
        jobs.append(('case_helpers', ('lr', code)))
    jobs.append(('case_too_small', None))
    if tier == 'quick':
        N = 16
        cycles = ('V', 'W', 'F')
        scs = (0, 1, 2, 3, True, 1213)
        lrs = (0, 7, True, 1234567)
        clevels = (-1, 1)
        maxit = 2
        combos = []
        rng = np.random.default_rng(seed())
        # pairwise-style cover: every (cycle, sc) and every (cycle, lr)
        for cyc in cycles:
            for i, sc in enumerate(scs):
                combos.append((cyc, sc, lrs[i % len(lrs)],
                               clevels[i % len(clevels)]))
            for i, lr in enumerate(lrs):
                combos.append((cyc, scs[(i+2) % len(scs)], lr,
                               clevels[(i+1) % len(clevels)]))
        single = [(dict(cycle='F', sc=True, lr=True, clevel=-1, maxit=2),
                   64, f) for f in [(None, 2, 3), (8, None, 2), (3, 8, None)]]
        single += [(dict(cycle=cyc, sc=sc, lr=lr, clevel=-1, maxit=5,
                         precond=2), 16, (None, None, 4))
                   for cyc, sc, lr in [('F', True, True), ('V', 12, 7),
                                       ('W', 0, 123)]]
    else:
        N = 40
        cycles = ('V', 'W', 'F')
        scs = (0, 1, 2, 3, True, 12, 123, 1213, 30)
        lrs = (0, 1, 2, 3, 4, 5, 6, 7, True, 47, 1234567)
        clevels = (-1, 0, 1, 2, 5)
        maxit = 3
        combos = []
        for cyc in cycles:
            for i, sc in enumerate(scs):
                for j, lr in enumerate(lrs):
                    if (i+j) % 3 == 0 or sc in (0, True) or lr in (0, True):
                        combos.append((cyc, sc, lr,
                                       clevels[(i+j) % len(clevels)]))
        single = [(dict(cycle=cyc, sc=sc, lr=lr, clevel=cl, maxit=5,
                        precond=3), 40, (None, None, None))
                  for cyc, sc, lr, cl in [('F', True, True, -1),
                                          ('V', 12, 7, -1), ('W', 0, 123, 1),
                                          ('F', 1213, 47, 2)]]
        single += [(dict(cycle=cyc, sc=sc, lr=True, clevel=-1, maxit=2),
                   1024, f)
                  for cyc in cycles for sc in (0, True)
                  for f in [(None, 2, 3), (8, None, 2), (3, 8, None),
                            (None, 8, 8)]]
    combos = list(dict.fromkeys(combos))
    if tier == 'quick':
        # user limit 0 (no coarsening at all) is a boundary of its own
        combos += [('V', 0, 0, 0), ('F', True, 7, 0)]
    for cyc, sc, lr, cl in combos:
        jobs.append(('case_cycle', (dict(cycle=cyc, sc=sc, lr=lr, clevel=cl,
                                         maxit=maxit), N, (None, None,
                                                           None))))
    for s in single:
        jobs.append(('case_cycle', s))
    obs = pmap(_dispatch, jobs)
    run.add(obs)
    run.bounds = dict(
        helpers="n >= 2 unbounded (symbolic integers), all codes",
        whole_cycle=f"2 <= nx,ny,nz <= {N} all three symbolic; "
                    f"{len(combos)} configurations (cycle x sc x lr x "
                    f"clevel), maxit={maxit}",
        single_direction=[f"{s[2]} with n <= {s[1]}" for s in single[:6]],
        too_small="0 <= n <= 8")
    run.assumptions = [
        "restriction halves exactly the directions named by sc_dir (shape "
        "contract proved in C04(iv)); residual norms decrease strictly so "
        "no early exit happens before maxit cycles (exits are C01)",
        "the textbook recursion (V: gamma=1, W: gamma=2, F: F then V; bottom "
        "= min(user limit, max admissible halvings over non-excluded "
        "directions)) is the reference; it matches the figure in solve()'s "
        "docstring",
    ]
    run.stubs = ["core.gauss_seidel* -> event recorders",
                 "solver.restriction/prolongation/residual/"
                 "_print_cycle_info -> event recorders / shape contract",
                 "builtins.int inside emg3d.solver -> symbolic-aware int"]
    run.outside = ["shapes above the bounds", "sslsolver preconditioner "
                   "mode (C01)", "floating-point exits"]
    run.explanation = (
        "MGParameters, _current_sc_dir, _current_lr_dir, smoothing and "
        "multigrid are executed with the grid shape as z3 integers; the "
        "explorer forks on the code's own parity/size tests, so each path "
        "is a class of shapes; per path the recorded trace of smoothing / "
        "restriction / prolongation events is compared with a textbook "
        "recursion and LIA queries show halved directions are even and >2, "
        "no level has <2 cells, no line relaxation along 2 cells, bottom "
        "level == implied level == header value, and sc/lr digits advance "
        "once per fine-grid cycle.  Exhaustive over all shape classes "
        "within the bound.")
    for o in obs[:3]:
        run.sample(dict(group=o['group'], label=o['label'],
                        verdict=o['verdict'], note=o['note']))
    return run.finish(replay)
