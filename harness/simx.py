"""Shadow Simulation on symbolic content with an uninterpreted solver.

emg3d.solve / solve_source are replaced by ONE uninterpreted function
Solve(model values, source-field values, tol): the same arguments give the
same (symbolic) field, different arguments give unrelated fresh fields.
Receiver sampling uses the trilinear interpolant validated in C09.
"""
import itertools
from fractions import Fraction

import numpy as np
import z3

import symx
from symx import Q, Qc, B, Ctx, set_ctx, sym_array, State, shadow
from symx.proxies import _Namespace
from . import c09


class World:
    def __init__(self):
        self.cache = {}
        self.fields = {}
        self.calls = []
        self.n = itertools.count()


_ALIVE = []      # keep simplified ASTs alive: their ids are cache keys


def _key_of(x):
    if isinstance(x, Q):
        if x.c is not None:
            return ('q', x.c)
        t = z3.simplify(x.t)
        _ALIVE.append(t)
        return ('q', t.get_id())
    if isinstance(x, Qc):
        return ('c', _key_of(x.re), _key_of(x.im))
    if isinstance(x, (float, int, complex, np.generic)):
        return ('n', complex(x))
    return ('o', id(x))


def install(E, W, keep):
    """Install solver / receiver stubs into the shadow package."""
    saved = []

    def setg(mod, name, val):
        saved.append((mod, name, getattr(mod, name)))
        setattr(mod, name, val)

    def usolve(model, sfield, efield=None, tol=1e-6, **kw):
        mkey = tuple(_key_of(v) for nm in ('property_x', 'property_y',
                                           'property_z', 'mu_r',
                                           'epsilon_r')
                     for v in (np.asarray(getattr(model, nm),
                                          dtype=object).flat
                               if getattr(model, nm) is not None else []))
        skey = tuple(_key_of(v) for v in np.asarray(sfield.field,
                                                    dtype=object).flat)
        key = (model.map.name, mkey, skey, sfield._frequency, float(tol),
               sfield.grid.shape_cells)
        # the initial guess handed to the solver (None or a field): part of
        # the solver's INPUT (real solves depend on it at tolerance level)
        gkey = None
        if efield is not None:
            gkey = hash(tuple(_key_of(v) for v in np.asarray(
                efield.field, dtype=object).flat))
        W.calls.append(dict(tol=float(tol), key=hash(key), guess=gkey))
        hit = W.cache.get(key)
        if hit is None:
            # same value, different syntax?  ask the solver (the function
            # is uninterpreted in the VALUES of its arguments)
            cur = list(np.asarray(sfield.field, dtype=object).flat)
            for k2, (sf2, h2) in W.fields.items():
                if k2[:2] != key[:2] or k2[3:] != key[3:]:
                    continue
                conj = []
                for a, b in zip(cur, sf2):
                    a, b = Qc._co(a), Qc._co(b)
                    conj.append(z3.And(symx.qt(a.re) == symx.qt(b.re),
                                       symx.qt(a.im) == symx.qt(b.im)))
                v, _ = symx.ctx().valid(z3.And(*conj), label='uf args')
                if v == 'held':
                    hit = h2
                    W.cache[key] = hit
                    break
        if hit is None:
            k = next(W.n)
            n = sfield.field.size
            data = np.empty(n, dtype=object)
            for i in range(n):
                data[i] = Qc.var(f"E{k}[{i}]")
            # contract of solve (C01): tangential boundary entries are zero
            from . import fit as _fit
            shp = sfield.grid.shape_cells
            tmp = E.fields.Field(sfield.grid, frequency=sfield._frequency)
            tmp._field = data.view(symx.SymArray)
            for dd, part in enumerate([tmp.fx, tmp.fy, tmp.fz]):
                for idx in _fit.boundary_edges(shp, dd):
                    part[idx] = Qc(0, 0)
            hit = data
            W.cache[key] = hit
            W.fields[key] = (list(np.asarray(sfield.field,
                                             dtype=object).flat), hit)
            keep.append((key, hit))
        out = E.fields.Field(sfield.grid, frequency=sfield._frequency)
        out._field = hit.copy().view(symx.SymArray)
        info = dict(exit=0, exit_message='CONVERGED', abs_error=0.0,
                    rel_error=0.0, it_mg=1, it_ssl=1, time=0.0,
                    runtime_at_cycle=np.array([0.]),
                    error_at_cycle=np.array([0.]), ref_error=1.0,
                    tol=float(tol), log='')
        return out, info

    def usolve_source(model, source, frequency, **kw):
        sf = E.fields.get_source_field(model.grid, source, frequency)
        return usolve(model, sf, **kw)
    setg(E._multiprocessing.solver, 'solve', usolve)
    setg(E._multiprocessing.solver, 'solve_source', usolve_source)

    def process_map(fn, *args, max_workers=1, **kw):
        return list(map(fn, *args))
    setg(E._multiprocessing, 'process_map', process_map)

    def get_receiver(field, receiver, method='cubic'):
        coords = receiver.coordinates if hasattr(receiver, 'coordinates') \
            else receiver
        arr = [np.atleast_1d(np.asarray(cc, dtype=float)) for cc in coords]
        nrec = max(len(a) for a in arr)
        arr = [np.broadcast_to(a, (nrec,)) for a in arr]
        grid = field.grid
        vecs = c09.comp_vecs(grid, electric=field.electric)
        parts = [field.fx, field.fy, field.fz]
        out = np.empty(nrec, dtype=object)
        for i in range(nrec):
            pos = [Q(Fraction(float(arr[k][i]))) for k in range(3)]
            rot = E.electrodes.rotation(float(arr[3][i]), float(arr[4][i]))
            tot = Qc(0, 0)
            for d in range(3):
                if abs(rot[d]) > 1e-10:
                    tot = tot + Qc._co(c09.trilinear(vecs[d], parts[d],
                                                     pos))*float(rot[d])
            out[i] = tot
        return out.view(symx.SymArray)
    setg(E.fields, 'get_receiver', get_receiver)

    def field_get_receiver(self, receiver, method='cubic'):
        return get_receiver(self, receiver, method)
    setg(E.fields.Field, 'get_receiver', field_get_receiver)

    # every TensorMesh (also those created by copy / from_dict)
    TM = E.meshes.TensorMesh
    real_deriv = TM.get_edge_inner_product_deriv
    rng = np.random.default_rng(0)

    def sym_deriv(self, m, *a, **k):
        f = real_deriv(self, m, *a, **k)
        A = f(np.ones(self.n_edges))
        u = rng.normal(size=self.n_edges)
        import scipy.sparse as sps
        if abs(f(u) - sps.diags(u) @ A).max() > 1e-12:
            raise RuntimeError("edge inner product derivative is not "
                               "diag(u) @ A on this mesh")
        return lambda fld: _Deriv(A, np.asarray(fld, dtype=object))
    setg(TM, 'get_edge_inner_product_deriv', sym_deriv)
    return saved


def uninstall(saved):
    for mod, name, val in reversed(saved):
        setattr(mod, name, val)


def make_grid(E):
    return E.meshes.TensorMesh([np.array([2., 1., 1., 2.]),
                                np.array([1., 1., 2., 1.]),
                                np.array([1., 2., 1.])], (0., 0., 0.))


def make_survey(E, c, recs='ee', nsrc=1, nf=True):
    src = [E.electrodes.TxElectricDipole((2.5+0.25*i, 1.5, 1.5, 20., 10.))
           for i in range(nsrc)]
    rec = []
    for i, ch in enumerate(recs):
        co = (2.25+0.5*i, 2.5-0.25*i, 2.0+0.25*i, 30.*i, 10.*i)
        rec.append(E.electrodes.RxElectricPoint(co) if ch == 'e' else
                   E.electrodes.RxMagneticPoint(co))
    shape = (nsrc, len(recs), 1)
    d = np.empty(shape, dtype=object)
    for i in np.ndindex(*shape):
        d[i] = Qc.var(f"d{list(i)}")
    nfq = Q.var('nf')
    c.assume(B(nfq.t > 0))
    sv = E.surveys.Survey(src, rec, [1.0], data=d.view(symx.SymArray),
                          noise_floor=nfq if nf else None)
    return sv, d, nfq


def make_model(E, c, grid, aniso='iso', mapping='Conductivity',
               symbolic=True, tag='p'):
    shape = grid.shape_cells
    kw = {}
    names = ['property_x']
    if aniso in ('HTI', 'triaxial'):
        names.append('property_y')
    if aniso in ('VTI', 'triaxial'):
        names.append('property_z')
    rng = np.random.default_rng(3)
    vals = {}
    for nm in names:
        if symbolic:
            vals[nm] = sym_array(f"{tag}{nm[-1]}", shape, positive=True)
        else:
            vals[nm] = np.round(rng.uniform(1, 3, shape)*4)/4
        kw[nm] = vals[nm]
    model = E.models.Model(grid, mapping=mapping, **kw)
    return model, vals


class _Deriv:
    """discretize's edge-inner-product derivative applied to a symbolic
    field: for tensor meshes M_e(m) is diagonal, so deriv(u) = diag(u) A
    with the concrete averaging matrix A = deriv(ones) (checked below)."""

    def __init__(self, A, u):
        self.A = A.tocsr()
        self.u = u

    def __mul__(self, v):
        v = np.asarray(v, dtype=object)
        n = self.A.shape[0]
        out = np.empty(n, dtype=object)
        ip, ix, dat = self.A.indptr, self.A.indices, self.A.data
        for i in range(n):
            acc = Q(Fraction(0))
            for p in range(ip[i], ip[i+1]):
                acc = acc + v[ix[p]]*float(dat[p])
            out[i] = self.u[i]*acc
        return out.view(symx.SymArray)


def patch_grid_deriv(grid):
    return        # done at class level in install()
    real = grid.get_edge_inner_product_deriv
    rng = np.random.default_rng(0)

    def sym_deriv(m):
        f = real(m)
        A = f(np.ones(grid.n_edges))
        u = rng.normal(size=grid.n_edges)
        ref = f(u)
        import scipy.sparse as sps
        if abs(ref - sps.diags(u) @ A).max() > 1e-12:
            raise RuntimeError("edge inner product derivative is not "
                               "diag(u) @ A on this mesh")
        return lambda fld: _Deriv(A, np.asarray(fld, dtype=object))
    grid.get_edge_inner_product_deriv = sym_deriv
