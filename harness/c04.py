"""C04 — restriction == prolongation^T; coarse model conserves volumes.

Real code (shadow): solver.restriction (grid coarsening,
_restrict_model_parameters, _get_restriction_weights, core.restrict,
core.restrict_weights), solver.prolongation, solver.RegularGridProlongator,
meshes.BaseMesh.  Widths, origin, model, fine residual and coarse field are
all solver variables.
"""
import os
import time
import itertools
from fractions import Fraction

import numpy as np
import z3

import symx
from symx import Q, Ctx, set_ctx, sym_array, State, shadow, Inconclusive
from . import fit
from .common import ob, Run, pmap, seed

PID = 'C04'
COARSENED = {0: (0, 1, 2), 1: (1, 2), 2: (0, 2), 3: (0, 1), 4: (0,), 5: (1,),
             6: (2,)}


class _Duck:
    pass


def _mk_field(E, grid, parts=None, name=None, pec=False):
    """Shadow Field on `grid` carrying symbolic data."""
    shape = grid.shape_cells
    if parts is None:
        parts = [sym_array(f"{name}{'xyz'[d]}", fit.edge_shape(shape, d))
                 for d in range(3)]
        if pec:
            for d in range(3):
                for idx in fit.boundary_edges(shape, d):
                    parts[d][idx] = Q(Fraction(0))
    data = np.concatenate([np.asarray(p, dtype=object).ravel(order='F')
                           for p in parts]).view(symx.SymArray)
    f = E.fields.Field(grid, data=data)
    return f


def _setup(E, shape, aniso):
    c = set_ctx(Ctx(timeout_ms=int(os.environ.get('C04_TIMEOUT_MS',
                                                   '120000'))))
    State.OBJECT_ALLOC = True
    h = [sym_array(f"h{'xyz'[d]}", shape[d], positive=True) for d in range(3)]
    origin = (Q.var('x0'), Q.var('y0'), Q.var('z0'))
    grid = E.meshes.BaseMesh(h, origin)
    model = _Duck()
    model.grid = grid
    model.case = {'iso': 'isotropic'}.get(aniso, aniso)
    model.eta_x = sym_array('eta_x', shape)
    model.eta_y = sym_array('eta_y', shape) if aniso in ('HTI', 'triaxial') \
        else model.eta_x
    model.eta_z = sym_array('eta_z', shape) if aniso in ('VTI', 'triaxial') \
        else model.eta_x
    model.zeta = sym_array('zeta', shape)
    return c, h, grid, model


def _inner(a, b, shape, only_interior=True):
    tot = Q(Fraction(0))
    parts_a = [a.fx, a.fy, a.fz]
    parts_b = [b.fx, b.fy, b.fz]
    for d in range(3):
        idxs = fit.interior_edges(shape, d) if only_interior else \
            list(np.ndindex(*fit.edge_shape(shape, d)))
        for idx in idxs:
            x, y = parts_a[d][idx], parts_b[d][idx]
            if isinstance(x, Q) and x.c is not None and x.c == 0:
                continue
            if isinstance(y, Q) and y.c is not None and y.c == 0:
                continue
            tot = tot + x*y
    return tot


def _vals(m, arr):
    return [float(symx.model_value(m, v)) for v in
            np.asarray(arr, dtype=object).ravel(order='F')]


def case_transfer(case):
    sc_dir, shape, aniso = case
    E = shadow.load()
    c, h, grid, model = _setup(E, shape, aniso)
    grp = f"sc_dir={sc_dir} shape={shape} aniso={aniso}"
    obs = []
    # record prolongator instances to get at the weights
    insts = []
    RealRGP = E.solver.RegularGridProlongator

    class RecRGP(RealRGP):
        def __init__(self, *a):
            super().__init__(*a)
            insts.append(self)
    E.solver.RegularGridProlongator = RecRGP
    t0 = time.time()
    try:
        sfield = _mk_field(E, grid, name='s')
        res = _mk_field(E, grid, name='r')
        cmodel, csfield, cefield = E.solver.restriction(model, sfield, res,
                                                        sc_dir)
        cshape = cmodel.grid.shape_cells
        # coarse correction: symbolic, PEC boundary (the code's invariant)
        cf = _mk_field(E, cmodel.grid, name='c', pec=True)
        e0 = _mk_field(E, grid, parts=[symx.symnp.zeros(
            fit.edge_shape(shape, d)) for d in range(3)])
        E.solver.prolongation(e0, cf, sc_dir)
        # prolongation adds: start from a symbolic fine field
        e1 = _mk_field(E, grid, name='f')
        e1_before = e1.field.copy()
        E.solver.prolongation(e1, cf, sc_dir)
        # row sums: coarse field identically one
        ones = _mk_field(E, cmodel.grid, parts=[symx.symnp.ones(
            fit.edge_shape(cshape, d)) for d in range(3)])
        e2 = _mk_field(E, grid, parts=[symx.symnp.zeros(
            fit.edge_shape(shape, d)) for d in range(3)])
        E.solver.prolongation(e2, ones, sc_dir)
        # (vi) no state from earlier calls: a second fine grid B with the
        # same coarse nodes (even nodes) but different odd nodes, prolongated
        # from the SAME coarse field object right after grid A.
        hB = []
        for d in range(3):
            hd = np.array(list(h[d]), dtype=object).view(symx.SymArray)
            if d in COARSENED[sc_dir]:
                for k in range(shape[d]//2):
                    dk = Q.var(f"d{'xyz'[d]}[{k}]")
                    hd[2*k] = h[d][2*k] + dk
                    hd[2*k+1] = h[d][2*k+1] - dk
                    c.assume(symx.B(z3.And(hd[2*k].t > 0,
                                           hd[2*k+1].t > 0)))
            hB.append(hd)
        gridB = E.meshes.BaseMesh(hB, grid.origin)
        modelB = _Duck()
        modelB.grid = gridB
        modelB.case = model.case
        modelB.eta_x = modelB.eta_y = modelB.eta_z = modelB.zeta = \
            model.zeta
        resB = _mk_field(E, gridB, name='rB')
        _, csB, _ = E.solver.restriction(modelB, resB, resB, sc_dir)
        e0B = _mk_field(E, gridB, parts=[symx.symnp.zeros(
            fit.edge_shape(shape, d)) for d in range(3)])
        E.solver.prolongation(e0B, cf, sc_dir)
    finally:
        E.solver.RegularGridProlongator = RealRGP
    build_s = time.time()-t0
    if c.stats['forks']:
        # the transfer operators branched on symbolic grid values (they are
        # branch-free on the pinned tree).  Only the first feasible branch
        # was executed: the obligations below are still evaluated under that
        # path condition (a counterexample on a feasible path is real), but
        # the case cannot be reported as held.
        obs.append(ob("harness: the code branched on symbolic grid values; "
                      "only one path was executed", 'error', group=grp,
                      note=f"{c.stats['forks']} forks"))
    named = dict(h=h)

    def cexd(kind, m):
        return dict(kind=kind, sc_dir=sc_dir, shape=list(shape), aniso=aniso,
                    h=[_vals(m, x) for x in h] if m is not None else None,
                    origin=[float(symx.model_value(m, o))
                            for o in grid.origin] if m is not None else None)
    # (iv) coarse grid = every second node in coarsened directions
    t1 = time.time()
    conj = []
    okshape = True
    for d in range(3):
        fn = [grid.nodes_x, grid.nodes_y, grid.nodes_z][d]
        cn = [cmodel.grid.nodes_x, cmodel.grid.nodes_y,
              cmodel.grid.nodes_z][d]
        want = fn[::2] if d in COARSENED[sc_dir] else fn
        if len(want) != len(cn):
            okshape = False
            continue
        conj += [symx.qt(a) == symx.qt(b) for a, b in zip(cn, want)]
    if not okshape:
        obs.append(ob("coarse grid shape", 'cex', cls='concrete', group=grp,
                      key=f"coarse grid nodes wrong sc_dir={sc_dir}",
                      cex=cexd('grid', None)))
    else:
        vd, m = c.valid(z3.And(*conj), label='grid')
        obs.append(ob("coarse nodes == every second fine node in coarsened "
                      "directions, unchanged otherwise", vd, group=grp,
                      cls='LIN', seconds=time.time()-t1,
                      key=f"coarse grid nodes wrong sc_dir={sc_dir}",
                      cex=cexd('grid', m) if vd == 'cex' else None))
    # (v) coarse parameters = sum of children; aliasing kept
    t1 = time.time()
    conj = []
    for nm in ('eta_x', 'eta_y', 'eta_z', 'zeta'):
        fine = getattr(model, nm)
        coarse = getattr(cmodel, nm)
        for cidx in np.ndindex(*cshape):
            rng = [(range(2*cidx[d], 2*cidx[d]+2) if d in COARSENED[sc_dir]
                    else range(cidx[d], cidx[d]+1)) for d in range(3)]
            want = Q(Fraction(0))
            for fidx in itertools.product(*rng):
                want = want + fine[fidx]
            conj.append(symx.qt(coarse[cidx]) == symx.qt(want))
    vd, m = c.valid(z3.And(*conj), label='model')
    obs.append(ob(f"coarse eta/zeta == sum of fine children "
                  f"[{len(conj)} entries]", vd, group=grp, cls='LIN',
                  seconds=time.time()-t1,
                  key=f"coarse model parameters wrong sc_dir={sc_dir}",
                  cex=cexd('model', m) if vd == 'cex' else None))
    alias_ok = True
    if aniso in ('iso', 'VTI'):
        alias_ok &= cmodel.eta_y is cmodel.eta_x
    if aniso in ('iso', 'HTI'):
        alias_ok &= cmodel.eta_z is cmodel.eta_x
    if aniso in ('HTI', 'triaxial'):
        alias_ok &= cmodel.eta_y is not cmodel.eta_x
    if aniso in ('VTI', 'triaxial'):
        alias_ok &= cmodel.eta_z is not cmodel.eta_x
    obs.append(ob("coarse model keeps the anisotropy aliasing", 'held' if
                  alias_ok else 'cex', cls='concrete', group=grp,
                  nontrivial=False,
                  key=f"coarse model aliasing aniso={aniso}",
                  cex=cexd('alias', None) if not alias_ok else None))
    # coarse e-field is zero, coarse source boundary untouched (zero)
    zero_ok = all(isinstance(v, Q) and v.c == 0 for v in cefield.field)
    obs.append(ob("coarse correction field starts as zeros", 'held' if
                  zero_ok else 'cex', cls='concrete', group=grp,
                  nontrivial=False, key="coarse e-field not zero",
                  cex=cexd('czero', None) if not zero_ok else None))
    # (i) <c, R r> == <P c, r>
    t1 = time.time()
    lhs = _inner(cf, csfield, cshape)
    rhs = _inner(e0, res, shape, only_interior=False)
    vd, m = c.valid(symx.qt(lhs) == symx.qt(rhs), label='adjoint')
    cex = None
    if vd == 'cex':
        cex = cexd('adjoint', m)
    obs.append(ob("<c, R r> == <P c, r> for independent symbolic c (PEC) "
                  "and r", vd, group=grp, seconds=time.time()-t1, cex=cex,
                  key=f"restriction != prolongation^T sc_dir={sc_dir}",
                  note=f"build {build_s:.2f}s recips={len(c.recips)}"))
    # (vi) second grid, same coarse field object
    t1 = time.time()
    lhsB = _inner(cf, csB, cshape)
    rhsB = _inner(e0B, resB, shape, only_interior=False)
    vd, m = c.valid(symx.qt(lhsB) == symx.qt(rhsB), label='adjoint B')
    obs.append(ob("second call: <c, R_B r> == <P_B c, r> on a grid B with "
                  "the same coarse nodes, same coarse field object (no state "
                  "kept between calls)", vd, group=grp,
                  seconds=time.time()-t1,
                  key="prolongation/restriction depend on earlier calls "
                      "(stale state)",
                  cex=cexd('history', m) if vd == 'cex' else None))
    # (iii) boundary fine edges receive nothing; prolongation adds
    parts0 = [e0.fx, e0.fy, e0.fz]
    nzb = 0
    for d in range(3):
        for idx in fit.boundary_edges(shape, d):
            v = parts0[d][idx]
            if not (isinstance(v, Q) and v.c == 0):
                nzb += 1
    obs.append(ob("prolongation writes no boundary fine edge", 'held' if
                  nzb == 0 else 'cex', cls='concrete', group=grp,
                  nontrivial=False, note=f"{nzb} written",
                  key=f"prolongation touches boundary sc_dir={sc_dir}",
                  cex=cexd('pbnd', None) if nzb else None))
    t1 = time.time()
    conj = [symx.qt(a) == symx.qt(b)+symx.qt(p) for a, b, p in
            zip(e1.field, e1_before, e0.field)]
    vd, m = c.valid(z3.And(*conj), label='adds')
    obs.append(ob("prolongation adds: e_after == e_before + P c on every "
                  "edge", vd, group=grp, seconds=time.time()-t1,
                  key=f"prolongation does not add sc_dir={sc_dir}",
                  cex=cexd('adds', m) if vd == 'cex' else None))
    # (ii) weights: row sums == 1 on interior fine edges; each weight >= 0
    t1 = time.time()
    parts2 = [e2.fx, e2.fy, e2.fz]
    conj = []
    for d in range(3):
        for idx in fit.interior_edges(shape, d):
            conj.append(symx.qt(parts2[d][idx]) == 1)
    vd, m = c.valid(z3.And(*conj), label='rowsum')
    obs.append(ob(f"prolongation weights sum to 1 on all {len(conj)} "
                  f"interior fine edges", vd, group=grp,
                  seconds=time.time()-t1, cls='NRA-small',
                  key=f"prolongation weights do not sum to one "
                      f"sc_dir={sc_dir}",
                  cex=cexd('rowsum', m) if vd == 'cex' else None))
    t1 = time.time()
    distinct = {}
    for fn in insts[:3]:
        for w in np.asarray(fn.weight, dtype=object).flat:
            if isinstance(w, Q) and w.c is None:
                distinct[z3.simplify(w.t).get_id()] = w
            elif isinstance(w, Q) and w.c < 0:
                distinct['neg'] = w
    bad = None
    unk = 0
    for k, w in distinct.items():
        vd1, m = c.valid(symx.qt(w) >= 0, label='w>=0')
        if vd1 == 'cex':
            bad = m
            break
        if vd1 == 'unknown':
            unk += 1
    obs.append(ob(f"{len(distinct)} distinct symbolic bilinear weights are "
                  f">= 0", 'cex' if bad is not None else
                  ('unknown' if unk else 'held'), group=grp,
                  seconds=time.time()-t1, cls='NRA-small',
                  key=f"negative prolongation weight sc_dir={sc_dir}",
                  cex=cexd('wneg', bad) if bad is not None else None))
    r3, _ = c.check(symx.qt(lhs) != 0, label='twin')
    obs.append(ob("twin: side conditions satisfiable, pairing nonzero",
                  'twin_sat' if r3 == 'sat' else 'twin_unsat', group=grp,
                  cls='NRA-small'))
    return obs


# --------------------------------------------------------------------------
def replay(cex):
    """Numeric R vs P^T through the real (jitted) package."""
    import emg3d
    shape = tuple(cex['shape'])
    sc_dir = cex['sc_dir']
    rng = np.random.default_rng(5)
    if cex.get('h'):
        h = [np.array(x) for x in cex['h']]
        if min(x.min() for x in h) <= 0 or \
                max(x.max() for x in h)/min(x.min() for x in h) > 1e6:
            h = [rng.uniform(.5, 2, n) for n in shape]
    else:
        h = [rng.uniform(.5, 2, n) for n in shape]
    origin = cex.get('origin') or [0., 0., 0.]
    grid = emg3d.meshes.BaseMesh(h, origin)
    model = _Duck()
    model.grid = grid
    model.case = {'iso': 'isotropic'}.get(cex['aniso'], cex['aniso'])
    model.eta_x = rng.normal(size=shape)
    model.eta_y = rng.normal(size=shape) if model.case in (
        'HTI', 'triaxial') else model.eta_x
    model.eta_z = rng.normal(size=shape) if model.case in (
        'VTI', 'triaxial') else model.eta_x
    model.zeta = rng.uniform(1, 2, shape)
    sfield = emg3d.Field(grid, dtype=float)
    res = emg3d.Field(grid, rng.normal(size=grid.n_edges))
    cmodel, csfield, cefield = emg3d.solver.restriction(model, sfield, res,
                                                        sc_dir)
    cshape = cmodel.grid.shape_cells
    kind = cex['kind']
    msgs = []
    bad = False
    if kind == 'history':
        # grid A then grid B (same even nodes) through the real package
        hB = [x.copy() for x in h]
        for d in range(3):
            if d in COARSENED[sc_dir]:
                for k in range(shape[d]//2):
                    dk = 0.3*min(h[d][2*k], h[d][2*k+1])
                    hB[d][2*k] += dk
                    hB[d][2*k+1] -= dk
        gridB = emg3d.meshes.BaseMesh(hB, origin)
        cf = emg3d.Field(cmodel.grid, rng.normal(size=cmodel.grid.n_edges))
        for d, part in enumerate([cf.fx, cf.fy, cf.fz]):
            for idx in fit.boundary_edges(cmodel.grid.shape_cells, d):
                part[idx] = 0
        eA = emg3d.Field(grid, dtype=float)
        emg3d.solver.prolongation(eA, cf, sc_dir)
        modelB = _Duck()
        modelB.grid = gridB
        modelB.case = model.case
        modelB.eta_x = modelB.eta_y = modelB.eta_z = modelB.zeta = model.zeta
        resB = emg3d.Field(gridB, rng.normal(size=gridB.n_edges))
        _, csB, _ = emg3d.solver.restriction(modelB, resB, resB, sc_dir)
        eB = emg3d.Field(gridB, dtype=float)
        emg3d.solver.prolongation(eB, cf, sc_dir)
        lhs = float(sum((a*b).sum() for a, b in zip(
            [cf.fx, cf.fy, cf.fz], [csB.fx, csB.fy, csB.fz])))
        rhs = float((eB.field*resB.field).sum())
        sc = max(1.0, abs(lhs), abs(rhs))
        return abs(lhs-rhs) > 1e-9*sc, (
            f"real prolongation on grid A then grid B (same coarse nodes), "
            f"sc_dir={sc_dir} shape={shape}: <c,R_B r>={lhs!r} vs "
            f"<P_B c,r>={rhs!r}")
    # grid
    for d in range(3):
        fn = [grid.nodes_x, grid.nodes_y, grid.nodes_z][d]
        cn = [cmodel.grid.nodes_x, cmodel.grid.nodes_y,
              cmodel.grid.nodes_z][d]
        want = fn[::2] if d in COARSENED[sc_dir] else fn
        if len(want) != len(cn) or not np.allclose(cn, want, rtol=1e-12):
            bad = True
            msgs.append(f"coarse nodes dir {d} wrong")
    # model sums
    for nm in ('eta_x', 'eta_y', 'eta_z', 'zeta'):
        fine = getattr(model, nm)
        coarse = getattr(cmodel, nm)
        want = fine
        for d in range(3):
            if d in COARSENED[sc_dir]:
                sl0 = [slice(None)]*3
                sl1 = [slice(None)]*3
                sl0[d] = slice(0, None, 2)
                sl1[d] = slice(1, None, 2)
                want = want[tuple(sl0)]+want[tuple(sl1)]
        if (coarse.shape != want.shape or
                                 not np.allclose(coarse, want, rtol=1e-12)):
            bad = True
            msgs.append(f"coarse {nm} != sum of children")
    if not bad and cshape == cmodel.grid.shape_cells:
        cf = emg3d.Field(cmodel.grid, rng.normal(size=cmodel.grid.n_edges))
        for d, part in enumerate([cf.fx, cf.fy, cf.fz]):
            for idx in fit.boundary_edges(cshape, d):
                part[idx] = 0
        e0 = emg3d.Field(grid, dtype=float)
        emg3d.solver.prolongation(e0, cf, sc_dir)
        lhs = sum((a*b).sum() for a, b in zip(
            [cf.fx, cf.fy, cf.fz], [csfield.fx, csfield.fy, csfield.fz]))
        rhs = float((e0.field*res.field).sum())
        sc = max(1.0, abs(lhs), abs(rhs))
        if abs(lhs-rhs) > 1e-9*sc:
            bad = True
            msgs.append(f"<c,Rr>={lhs!r} != <Pc,r>={rhs!r}")
        ones = emg3d.Field(cmodel.grid, np.ones(cmodel.grid.n_edges))
        e2 = emg3d.Field(grid, dtype=float)
        emg3d.solver.prolongation(e2, ones, sc_dir)
        for d, part in enumerate([e2.fx, e2.fy, e2.fz]):
            for idx in fit.interior_edges(shape, d):
                if abs(part[idx]-1) > 1e-9:
                    bad = True
                    msgs.append(f"row sum {part[idx]!r} at {d}{idx}")
                    break
            for idx in fit.boundary_edges(shape, d):
                if part[idx] != 0:
                    bad = True
                    msgs.append(f"boundary edge written {d}{idx}")
                    break
        e3 = emg3d.Field(grid, rng.normal(size=grid.n_edges))
        b4 = e3.field.copy()
        emg3d.solver.prolongation(e3, cf, sc_dir)
        if not np.allclose(e3.field, b4+e0.field, rtol=1e-12, atol=1e-12):
            bad = True
            msgs.append("prolongation does not add")
    return bad, (f"real restriction/prolongation sc_dir={sc_dir} shape="
                 f"{shape}: " + ('; '.join(msgs[:3]) if msgs else
                                 'no discrepancy'))


def jit_vs_source():
    import emg3d
    rng = np.random.default_rng(seed()+3)
    worst = 0.0
    for sc_dir, shape in [(0, (4, 6, 4)), (1, (3, 4, 4)), (5, (3, 6, 2)),
                          (3, (4, 4, 3))]:
        h = [rng.uniform(.5, 2, n) for n in shape]
        grid = emg3d.meshes.BaseMesh(h, (0, 0, 0))
        ch = [np.diff(n[::2 if d in COARSENED[sc_dir] else 1]) for d, n in
              enumerate([grid.nodes_x, grid.nodes_y, grid.nodes_z])]
        cgrid = emg3d.meshes.BaseMesh(ch, (0, 0, 0))
        w = emg3d.solver._get_restriction_weights(grid, cgrid, sc_dir)
        r = emg3d.Field(grid, rng.normal(size=grid.n_edges))
        c1 = emg3d.Field(cgrid, dtype=float)
        c2 = emg3d.Field(cgrid, dtype=float)
        emg3d.core.restrict(c1.fx, c1.fy, c1.fz, r.fx, r.fy, r.fz, *w,
                            sc_dir)
        emg3d.core.restrict.py_func(c2.fx, c2.fy, c2.fz, r.fx, r.fy, r.fz,
                                    *w, sc_dir)
        worst = max(worst, np.abs(c1.field-c2.field).max() /
                    np.abs(c2.field).max())
    return worst


def _dispatch(job):
    return globals()[job[0]](job[1])


def main(tier):
    shadow.load()
    run = Run(PID, tier, design_ref='DESIGN.md §6 C04')
    run.functions.update(shadow.func_lines(
        'emg3d/core.py', ['restrict', 'restrict_weights']))
    run.functions.update(shadow.func_lines(
        'emg3d/solver.py', ['restriction', 'prolongation',
                            'RegularGridProlongator',
                            '_restrict_model_parameters',
                            '_get_restriction_weights']))
    run.functions.update(shadow.func_lines('emg3d/meshes.py', ['BaseMesh']))
    run.extra['hashes'] = {k: v for k, v in shadow.hashes().items()
                           if k in ('emg3d/core.py', 'emg3d/solver.py',
                                    'emg3d/meshes.py')}
    if tier == 'quick':
        cn, on, cap = (4, 6), (2, 3), 100
    else:
        cn, on, cap = (4, 6, 8), (2, 3, 4, 5), 130
        os.environ['C04_TIMEOUT_MS'] = '600000'     # forked workers inherit
    jobs = []
    shapes_used = {}
    for sc_dir in range(7):
        opts = [cn if d in COARSENED[sc_dir] else on for d in range(3)]
        for shp in itertools.product(*opts):
            # (three coarsened directions: 8x4x4 = 128 cells was still
            # undecided after 650 s; 96 cells take a minute)
            if int(np.prod(shp)) > (cap if sc_dir else min(cap, 100)):
                continue
            jobs.append(('case_transfer', (sc_dir, shp, 'triaxial')))
            shapes_used.setdefault(sc_dir, []).append(shp)
    for sc_dir, shp in [(0, (4, 4, 4)), (1, (2, 4, 4)), (4, (4, 3, 2))]:
        for an in ('iso', 'VTI', 'HTI'):
            jobs.append(('case_transfer', (sc_dir, shp, an)))
    jobs.sort(key=lambda j: -int(np.prod(j[1][1])))
    obs = pmap(_dispatch, jobs)
    run.add(obs)
    t0 = time.time()
    worst = jit_vs_source()
    run.validation.append(dict(
        what="compiled core.restrict vs py_func", max_rel_diff=worst,
        ok=bool(worst < 1e-12), seconds=round(time.time()-t0, 2)))
    if not worst < 1e-12:
        run.error(f"jit restrict deviates from python source: {worst}")
    run.bounds = dict(
        coarsened_direction_cells=cn, other_direction_cells=on,
        max_cells=cap, patterns="sc_dir 0..6",
        shapes={str(k): v for k, v in shapes_used.items()},
        symbolic="all widths (>0), origin, eta_x/y/z, zeta, fine residual "
                 "(all entries), coarse field (PEC boundary = 0), fine "
                 "field for the 'adds' check")
    run.assumptions = [
        "exact field arithmetic",
        "coarse correction has zero tangential boundary values (it is "
        "created as zeros by restriction() and smoothers never write the "
        "boundary: C03(c)) — the precondition under which P is compared",
        "widths > 0 (decides every searchsorted comparison without "
        "forking; the harness aborts as inconclusive if any fork occurs)",
    ]
    run.stubs = ["numba.njit -> identity",
                 "Model -> duck-typed VolumeModel with symbolic arrays"]
    run.outside = ["shapes beyond the bounds", "floating-point rounding"]
    run.explanation = (
        "solver.restriction (with core.restrict, core.restrict_weights, the "
        "grid and model coarsening) and solver.prolongation (with "
        "RegularGridProlongator) are executed on z3 Real terms; per "
        "(pattern, shape) z3 decides the bilinear identity <c,Rr>=<Pc,r> "
        "for all widths/origin/fields, hence R = P^T entrywise on interior "
        "edges; plus weight sums, non-negativity, additivity, boundary, "
        "coarse grid nodes and coarse parameter sums.")
    for o in obs[:3]:
        run.sample(dict(group=o['group'], label=o['label'],
                        verdict=o['verdict'], seconds=o['seconds']))
    return run.finish(replay)
