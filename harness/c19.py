"""C19 — layered (1D) mode on laterally invariant media (extraction and
bookkeeping core; the 1D modeller itself is an uninterpreted function).

Real code (shadow): models.Model.extract_1d, _multiprocessing.layered /
_get_points / _empymod_fwd / _fd_gradient, simulations.Simulation
(_compute_1d, compute, misfit, gradient with the mapping's chain rule,
_set_layered_opts), surveys.Survey.

(A) extract_1d with ALL horizontal widths symbolic and the ellipse selection
an ARBITRARY mask (maps.ellipse_indices is a nondeterministic stub returning
any boolean matrix; each mask is a path): extraction weights >= 0, sum to one,
are the area fractions of the selected cells (cylinder) / of the bounding box
(prism), are zero elsewhere; an empty selection falls back to the midpoint
cell; a laterally invariant model is returned unchanged layer by layer for
every mask and every mapping (log10/10** axiomatised); general models give the
area-weighted mean (log-mean for the linear maps); the returned 1-cell grid
spans the selection.  'midpoint' with symbolic points: one-hot weight in the
cell that contains the midpoint (clipped to the grid).

(B) a shadow Simulation(layered=True) with a laterally invariant symbolic
model, symbolic observed data whose NaN pattern is symbolic (every pattern is
a path) and empymod.bipole replaced by ONE uninterpreted function of (layer
resistivities, anisotropies, depths, source, receiver, frequency, ...):
every source-receiver-frequency triple with finite observed data (all, if
there are none) holds Bipole(of the layering, its own source/receiver/
frequency), the others stay NaN -- for the methods midpoint, source,
receiver, prism, cylinder; the finite-difference gradient, summed over each
layer, equals (phi(sigma + delta e_k) - phi(sigma))/delta times the mapping's
chain-rule factor, with phi evaluated through the same uninterpreted
modeller on the uniformly perturbed layering.
"""
import time
import warnings
import itertools
from fractions import Fraction

import numpy as np
import z3

import symx
from symx import Q, Qc, B, Ctx, set_ctx, sym_array, State, shadow, \
    Inconclusive
from . import c13, c14
from .common import ob, Run, pmap

PID = 'C19'
MAPS = ['Conductivity', 'LgConductivity', 'LnConductivity', 'Resistivity',
        'LgResistivity', 'LnResistivity']


def _qarr(xs):
    a = np.empty(len(xs), dtype=object)
    for i, x in enumerate(xs):
        a[i] = Q(Fraction(x))
    return a.view(symx.SymArray)


def _mesh_class(E):
    class TensorMesh(E.meshes.BaseMesh):       # name matters (check_mesh)
        def __eq__(self, o):
            return self is o
        __hash__ = object.__hash__
    return TensorMesh


def _is0(v):
    if isinstance(v, (int, float, np.generic)):
        return v == 0
    v = Q._co(v)
    if v.c is not None:
        return v.c == 0
    t = z3.simplify(v.t)
    return z3.is_rational_value(t) and t.as_fraction() == 0


def _subterms(t, seen, out):
    if t.get_id() in seen:
        return
    seen.add(t.get_id())
    if z3.is_app(t):
        if t.num_args() == 0 and t.decl().kind() == z3.Z3_OP_UNINTERPRETED:
            out['consts'][t.get_id()] = t
        elif t.decl().kind() == z3.Z3_OP_UNINTERPRETED:
            out['ufs'][t.get_id()] = t
        for ch in t.children():
            _subterms(ch, seen, out)


def valid_min(c, goal, label='min', timeout_ms=30000, use_pc=True):
    """Validity of `goal` from a MINIMAL part of the context: only the
    defining equations (and positivity facts) of the variables that occur in
    the goal, uninterpreted-function applications abstracted by fresh reals.
    Fewer assumptions and a weaker theory: 'held' here implies 'held' in the
    full context (sound); anything else falls back to the full query."""
    goal = z3.simplify(goal)
    if z3.is_true(goal):
        return 'held'
    info = dict(consts={}, ufs={})
    seen = set()
    _subterms(goal, seen, info)
    side = []
    # close under reciprocal definitions
    work = list(info['consts'].values())
    done = set()
    while work:
        v = work.pop()
        if v.get_id() in done:
            continue
        done.add(v.get_id())
        mon = c.recip_den.get(v.get_id())
        if mon is not None:
            side.append(mon*v == 1)
            sub = dict(consts={}, ufs={})
            _subterms(mon, set(), sub)
            info['ufs'].update(sub['ufs'])
            work.extend(sub['consts'].values())
            for u in sub['ufs'].values():
                s2 = dict(consts={}, ufs={})
                _subterms(u, set(), s2)
                work.extend(s2['consts'].values())
    ids = done
    # positivity / simple facts that mention only known variables
    for sc in c.side:
        s3 = dict(consts={}, ufs={})
        _subterms(sc, set(), s3)
        if s3['ufs']:
            continue
        if s3['consts'] and all(k in ids for k in s3['consts']) and \
                sc.decl().kind() in (z3.Z3_OP_GT, z3.Z3_OP_GE, z3.Z3_OP_LT,
                                     z3.Z3_OP_LE):
            side.append(sc)
    subst = [(u, z3.Real(f"uf!{u.get_id()}")) for u in info['ufs'].values()]
    # innermost applications first is not needed: substitute handles nesting
    # as long as outer terms are replaced first
    subst.sort(key=lambda p: -len(p[0].sexpr()))
    g2 = z3.substitute(goal, *subst) if subst else goal
    side2 = [z3.substitute(x, *subst) if subst else x for x in side]
    s = z3.Solver()
    s.set('timeout', timeout_ms)
    for x in side2:
        s.add(x)
    if use_pc:
        for x in c.pc:
            s3 = dict(consts={}, ufs={})
            _subterms(x, set(), s3)
            if not s3['ufs']:
                s.add(x)
    s.add(z3.Not(g2))
    t0 = time.time()
    r = str(s.check())
    dt = time.time()-t0
    c.stats['queries'] += 1
    c.stats[r] += 1
    c.stats['solver_s'] += dt
    c.query_log.append((label+' (min)', r, round(dt, 4)))
    if r == 'unsat':
        return 'held'
    return c.valid(goal, label=label)[0]


_INV = {'p10': 'lg', 'lg': 'p10', 'exp': 'ln', 'ln': 'exp'}


def _is_uf(t, name):
    return z3.is_app(t) and t.num_args() == 1 and \
        t.decl().kind() == z3.Z3_OP_UNINTERPRETED and t.decl().name() == name


def norm(c, t, memo=None):
    """Normalise a z3 real term by SOUND rewriting (each rule is an
    identity of the real functions the symbols stand for):
      p10(lg x) -> x, exp(ln x) -> x              (x > 0 proved first)
      lg(p10 x) -> x, ln(exp x) -> x
      p10(-lg x) -> 1/x, exp(-ln x) -> 1/x        (x > 0 proved first)
      lg(1/m) -> -lg(m), ln(1/m) -> -ln(m)        (1/m a reciprocal variable)
      1/(1/m) -> m
    reciprocal and sqrt variables are re-keyed on their normalised argument.
    Used to match the arguments of the uninterpreted 1D modeller
    syntactically."""
    memo = {} if memo is None else memo
    t = z3.simplify(t)
    k = t.get_id()
    if k in memo:
        return memo[k]
    memo[k] = t            # recursion guard
    if z3.is_rational_value(t):
        r = t
    elif z3.is_const(t):
        den = c.recip_den.get(k)
        r = t
        if den is not None:
            nd = norm(c, den, memo)
            inner = c.recip_den.get(nd.get_id())
            if inner is not None:                   # 1/(1/m) = m
                r = norm(c, inner, memo)
            elif not nd.eq(z3.simplify(den)):
                r = c.recip(nd)
        else:
            for key, (arg, var) in list(c.recips.items()):
                if isinstance(key, tuple) and key[0] == 'sqrt' and \
                        var.get_id() == k:
                    # canonical representative per (sum-of-monomials
                    # normal form of the) argument: sqrt is a function
                    na = z3.simplify(norm(c, arg, memo), som=True)
                    canon = c.__dict__.setdefault('_sqrt_canon', {})
                    c.keep.append(na)
                    r = canon.setdefault(na.get_id(), t)
                    break
    elif t.decl().kind() == z3.Z3_OP_UNINTERPRETED and t.num_args() == 1:
        name = t.decl().name()
        a = norm(c, t.arg(0), memo)
        r = None
        if name in _INV:
            inv = _INV[name]
            pos = name in ('p10', 'exp')
            if _is_uf(a, inv):
                x = a.arg(0)
                if not pos or valid_min(c, x > 0,
                                        label='norm positivity') == 'held':
                    r = x
            elif pos:
                na = z3.simplify(-a, som=True)
                if _is_uf(na, inv):
                    x = na.arg(0)
                    if valid_min(c, x > 0,
                                 label='norm positivity') == 'held':
                        r = norm(c, c.recip(x), memo)
            else:
                m = c.recip_den.get(a.get_id())
                if m is not None:
                    r = norm(c, -symx.qt(symx.ufun_apply(name, Q(m))), memo)
        if r is None:
            r = symx.qt(symx.ufun_apply(name, Q(a))) if name in _INV \
                else t.decl()(a)
    else:
        ch = [norm(c, x, memo) for x in t.children()]
        r = t.decl()(*ch) if ch else t
    r = z3.simplify(r, som=True)
    c.keep.append(r)
    memo[k] = r
    return r


def _valid_eq(c, a, b, label='eq'):
    a, b = Qc._co(a), Qc._co(b)
    if symx.qt(a.re).eq(symx.qt(b.re)) and symx.qt(a.im).eq(symx.qt(b.im)):
        return 'held'
    return valid_min(c, z3.And(symx.qt(a.re) == symx.qt(b.re),
                               symx.qt(a.im) == symx.qt(b.im)), label=label)


# ==========================================================================
# (A) extract_1d
# ==========================================================================
def _forward_sym(E, mapping, sig):
    """property value(s) of conductivity sig under the mapping."""
    M = getattr(E.maps, 'Map'+mapping)()
    return M.forward(sig)


def case_extract(case):
    nx, ny, method, mapping, aniso = case
    E = shadow.load()
    c = set_ctx(Ctx(timeout_ms=60000))
    State.OBJECT_ALLOC = True
    warnings.filterwarnings('ignore')
    grp = (f"extract_1d {method} {nx}x{ny} mapping={mapping} {aniso}: "
           f"arbitrary selection mask, symbolic widths")
    nz = 2
    TM = _mesh_class(E)
    saved = [(E.models.maps, 'ellipse_indices',
              E.models.maps.ellipse_indices),
             (E.models.meshes, 'TensorMesh', E.models.meshes.TensorMesh),
             (E.models.Model, '_check_positive_finite',
              E.models.Model._check_positive_finite)]
    E.models.meshes.TensorMesh = TM
    # positivity/finiteness validation is C14's subject; on 10**(...) terms
    # it would only add UF+NRA feasibility queries
    E.models.Model._check_positive_finite = lambda self, *a, **k: None
    obs = []
    npaths = dict(n=0, empty=0)
    t0 = time.time()

    def run():
        # every path re-creates its variables and side conditions: start
        # from an empty context so that feasibility checks stay small
        c.side, c.side_notes, c.recips, c.recip_den = [], [], {}, {}
        c._feas = None
        hx = sym_array('hx', (nx,), positive=True)
        hy = sym_array('hy', (ny,), positive=True)
        hz = sym_array('hz', (nz,), positive=True)
        grid = TM([hx, hy, hz], (0., 0., 0.))
        names = ['property_x'] + (['property_z'] if aniso == 'VTI' else []) \
            + (['mu_r', 'epsilon_r'] if aniso == 'full' else [])
        lay, gen = {}, {}
        for nm in names:
            lay[nm] = sym_array('L'+nm[-1], (nz,), positive=True)
            gen[nm] = sym_array('G'+nm[-1], (nx, ny, nz), positive=True)

        def ell(coo, p0, p1, **kw):
            m = np.zeros((nx, ny), dtype=bool)
            for i in range(nx):
                for j in range(ny):
                    m[i, j] = bool(B(z3.Bool(f"use{i}{j}")))
            return m
        E.models.maps.ellipse_indices = ell
        out = {}
        for kind, vals in (('invariant', lay), ('general', gen)):
            kw = {}
            for nm in names:
                if kind == 'invariant':
                    a = np.empty((nx, ny, nz), dtype=object)
                    for k in range(nz):
                        a[:, :, k] = vals[nm][k]
                    kw[nm] = a.view(symx.SymArray)
                else:
                    kw[nm] = vals[nm]
            model = E.models.Model(grid, mapping=mapping, **kw)
            try:
                oned, imat = model.extract_1d(
                    method, (Fraction(1, 2), Fraction(1, 2)), (1.5, 0.5),
                    ellipse={'radius': 1.0}, return_imat=True)
            except ZeroDivisionError:
                # exact arithmetic: the code divides by a concrete zero on
                # this path (IEEE: NaN weights)
                oned, imat = None, None
            out[kind] = (oned, imat, vals)
        mask = ell(None, None, None)
        return out, mask, (hx, hy, hz), names

    try:
        for (out, mask, (hx, hy, hz), names), pc, tr in c.explore(
                run, budget_s=1500):
            c.pc = pc
            npaths['n'] += 1
            t1 = time.time()
            oned, imat, lay = out['invariant']
            ix, iy = mask.nonzero()
            bad = None
            empty = ix.size == 0
            if oned is None or out['general'][0] is None:
                bad = "division by zero (weights undefined)"
                sel, six, eix, siy, eiy = [], 0, 0, 0, 0
            elif empty:
                npaths['empty'] += 1
                # fallback: midpoint of p0=(.5,.5), p1=(1.5,.5) -> (1, .5)
                nodes_x = np.r_[0, np.cumsum(hx)]
                nodes_y = np.r_[0, np.cumsum(hy)]
                # the cell is decided by the path (comparisons forked)
                cnt = sum(1 for v in np.asarray(imat).flat if not _is0(v))
                tot = Q(Fraction(0))
                for v in np.asarray(imat).flat:
                    tot = tot + v
                if cnt != 1 or _valid_eq(c, tot, 1.0) != 'held':
                    bad = 'fallback (empty selection) is not one-hot'
                else:
                    (i0, j0), = [(i, j) for i in range(nx) for j in range(ny)
                                 if not _is0(imat[i, j])]
                    inside = z3.And(symx.qt(nodes_x[i0]) <= 1,
                                    1 <= symx.qt(nodes_x[i0+1]))
                    if i0 == 0:
                        inside = z3.Or(inside, 1 < symx.qt(nodes_x[0]))
                    if i0 == nx-1:
                        inside = z3.Or(inside, 1 >= symx.qt(nodes_x[nx]))
                    if c.valid(inside, label='fallback cell')[0] != 'held':
                        bad = 'fallback cell does not contain the midpoint'
                sel = [(i0, j0)] if bad is None else []
                six = eix = i0 if bad is None else 0
                siy = eiy = j0 if bad is None else 0
            else:
                six, eix, siy, eiy = ix.min(), ix.max(), iy.min(), iy.max()
                if method == 'cylinder':
                    sel = list(zip(ix.tolist(), iy.tolist()))
                else:
                    sel = [(i, j) for i in range(six, eix+1)
                           for j in range(siy, eiy+1)]
            if bad is None:
                # weights: zero outside the selection, > 0 inside, sum 1,
                # proportional to the cell areas
                S = Q(Fraction(0))
                for (i, j) in sel:
                    S = S + hx[i]*hy[j]
                tot = Q(Fraction(0))
                for i in range(nx):
                    for j in range(ny):
                        w = imat[i, j]
                        if (i, j) not in sel:
                            if not _is0(w):
                                bad = f"weight outside the selection {i, j}"
                            continue
                        tot = tot + w
                        if valid_min(c, z3.And(symx.qt(Q._co(w)) > 0,
                                               symx.qt(Q._co(w)*S) ==
                                               symx.qt(hx[i]*hy[j])),
                                     label='weight') != 'held':
                            bad = f"weight of cell {i, j} is not its area " \
                                  f"fraction"
                if bad is None and _valid_eq(c, tot, 1.0) != 'held':
                    bad = "weights do not sum to one"
            if bad is None:
                # laterally invariant model comes back unchanged
                for nm in names:
                    got = getattr(oned, nm)
                    for k in range(len(hz)):
                        want = lay[nm][k]
                        g = got[0, 0, k]
                        tg = z3.simplify(symx.qt(Q._co(g)))
                        if z3.is_app(tg) and tg.decl().kind() == \
                                z3.Z3_OP_UNINTERPRETED and \
                                tg.decl().name() == 'p10':
                            v = _lemma_p10(c, g, want)
                        else:
                            v = _valid_eq(c, g, want)
                        if v != 'held':
                            bad = (f"laterally invariant {nm} layer {k} not "
                                   f"returned unchanged ({v})")
                            break
                    if bad:
                        break
            if bad is None:
                # general model: area-weighted (log-)mean with these weights
                oned_g, imat_g, gen = out['general']
                logm = not mapping.startswith('L')
                for nm in names:
                    got = getattr(oned_g, nm)
                    for k in range(len(hz)):
                        acc = Q(Fraction(0))
                        for (i, j) in sel:
                            v_ = gen[nm][i, j, k]
                            if logm and not empty:
                                v_ = np.log10(np.array(
                                    [v_], dtype=object).view(
                                        symx.SymArray))[0]
                            acc = acc + imat_g[i, j]*v_
                        g = got[0, 0, k]
                        if logm and not empty:
                            t = z3.simplify(symx.qt(g))
                            if t.decl().name() != 'p10':
                                bad = f"general {nm}: not 10**(mean log10)"
                                break
                            g = Q(t.arg(0))
                        if _valid_eq(c, g, acc, 'general') != 'held':
                            bad = (f"general {nm} layer {k} is not the "
                                   f"area-weighted {'log-' if logm else ''}"
                                   f"mean of the selected cells")
                            break
                    if bad:
                        break
            if bad is None:
                # returned 1-cell grid spans the selection
                g1 = oned.grid
                wx = Q(Fraction(0))
                for i in range(six, eix+1):
                    wx = wx + hx[i]
                wy = Q(Fraction(0))
                for j in range(siy, eiy+1):
                    wy = wy + hy[j]
                ox = Q(Fraction(0))
                for i in range(six):
                    ox = ox + hx[i]
                if not (_valid_eq(c, g1.h[0][0], wx) == 'held' and
                        _valid_eq(c, g1.h[1][0], wy) == 'held' and
                        _valid_eq(c, g1.origin[0], ox) == 'held' and
                        all(_valid_eq(c, a, b) == 'held'
                            for a, b in zip(g1.h[2], hz))):
                    bad = "returned grid does not span the selection"
            inconclusive = bad is not None and bad.endswith('(unknown)')
            obs.append(ob(
                f"mask {mask.astype(int).tolist()}: weights >= 0, sum 1, "
                f"area fractions of the selection, zero elsewhere; invariant "
                f"model unchanged; general model = weighted mean; grid spans "
                f"the selection", ('unknown' if inconclusive else 'cex')
                if bad else 'held', group=grp,
                cls='NRA-small', seconds=time.time()-t1,
                key=f"extract_1d {method}: {bad.split(' (')[0] if bad else ''}"
                .replace(str((0, 0)), '') if bad else None, note=bad or '',
                cex=dict(kind='extract', nx=nx, ny=ny, method=method,
                         mapping=mapping, aniso=aniso,
                         mask=mask.astype(int).tolist(), what=bad)
                if bad else None))
    except Inconclusive as e:
        obs.append(ob("exploration budget", 'unknown', group=grp,
                      note=str(e)))
    finally:
        for m_, n_, v_ in saved:
            setattr(m_, n_, v_)
    nexp = 2**(nx*ny)
    obs.append(ob(f"reachability: all {nexp} masks explored "
                  f"({npaths['n']} paths, {npaths['empty']} with empty "
                  f"selection)", 'twin_sat' if npaths['n'] >= nexp and
                  npaths['empty'] >= 1 else 'twin_unsat', group=grp,
                  cls='LIN', seconds=0.0,
                  note=f"case wall {time.time()-t0:.1f}s"))
    return obs


def _lemma_p10(c, g, want):
    """g = p10(arg) (or 1/p10, exp...) : prove arg == lg(want) first."""
    t = z3.simplify(symx.qt(Q._co(g)))
    if t.decl().kind() != z3.Z3_OP_UNINTERPRETED or \
            t.decl().name() != 'p10':
        return 'cex'
    arg = t.arg(0)
    lg = np.log10(np.array([want], dtype=object).view(symx.SymArray))[0]
    back = 10**np.array([lg], dtype=object).view(symx.SymArray)   # axioms
    v = valid_min(c, arg == symx.qt(lg), label='p10 lemma')
    if v != 'held':
        return v
    # congruence: p10(arg) = p10(lg(want)), and the inverse-pair axiom
    # p10(lg(want)) = want (instantiated by `back` above) -- pure UF
    s = z3.Solver()
    s.set('timeout', 30000)
    for sc in c.side:          # positivity facts (no UF, no products)
        s3 = dict(consts={}, ufs={})
        _subterms(sc, set(), s3)
        if not s3['ufs'] and sc.decl().kind() in (
                z3.Z3_OP_GT, z3.Z3_OP_GE, z3.Z3_OP_LT, z3.Z3_OP_LE):
            s.add(sc)
    wt = symx.qt(Q._co(want))
    # the inverse-pair axiom instance (symx._ax_lg): y > 0 -> p10(lg y) = y
    s.add(z3.Implies(wt > 0, c.ufun('p10')(c.ufun('lg')(wt)) == wt))
    # (the polynomial `arg` is abstracted by a fresh real A: the lemma
    # arg == lg(want) was proved above, the rest is pure congruence)
    A = z3.Real('arg!abs')
    s.add(A == symx.qt(lg))
    s.add(z3.Not(c.ufun('p10')(A) == wt))
    r = str(s.check())
    c.stats['queries'] += 1
    c.stats[r] += 1
    return {'unsat': 'held', 'sat': 'cex', 'unknown': 'unknown'}[r]


def case_midpoint(case):
    nx, ny = case
    E = shadow.load()
    c = set_ctx(Ctx(timeout_ms=60000))
    State.OBJECT_ALLOC = True
    warnings.filterwarnings('ignore')
    grp = f"extract_1d midpoint {nx}x{ny}: symbolic points"
    TM = _mesh_class(E)
    saved = [(E.models.meshes, 'TensorMesh', E.models.meshes.TensorMesh)]
    E.models.meshes.TensorMesh = TM
    hxv, hyv = [2, 1, 3, 1][:nx], [1, 2, 1][:ny]
    obs = []
    cells = set()

    def run():
        grid = TM([_qarr(hxv), _qarr(hyv), _qarr([1, 2])], (0., -1., 0.))
        gen = sym_array('G', (nx, ny, 2), positive=True)
        model = E.models.Model(grid, mapping='Resistivity', property_x=gen)
        p0 = (Q.var('p0x'), Q.var('p0y'))
        p1 = (Q.var('p1x'), Q.var('p1y'))
        oned, imat = model.extract_1d('midpoint', p0, p1, return_imat=True)
        return oned, imat, gen, p0, p1

    try:
        for (oned, imat, gen, p0, p1), pc, tr in c.explore(run, budget_s=600):
            c.pc = pc
            t1 = time.time()
            nz_ = [(i, j) for i in range(nx) for j in range(ny)
                   if imat[i, j] != 0]
            bad = None
            if len(nz_) != 1 or imat[nz_[0]] != 1:
                bad = "weights are not one-hot"
            else:
                i0, j0 = nz_[0]
                cells.add((i0, j0))
                nodes = [np.r_[0, np.cumsum(hxv)],
                         np.r_[-1, -1+np.cumsum(hyv)]]
                conj = []
                for d, (k0, n_) in enumerate(((i0, nx), (j0, ny))):
                    mid = (symx.qt(p0[d])+symx.qt(p1[d]))/2
                    lo, hi = int(nodes[d][k0]), int(nodes[d][k0+1])
                    cond = z3.And(lo <= mid, mid < hi)
                    if k0 == 0:
                        cond = z3.Or(cond, mid < lo)
                    if k0 == n_-1:
                        cond = z3.Or(cond, mid >= hi)
                    conj.append(cond)
                if c.valid(z3.And(*conj), label='cell')[0] != 'held':
                    bad = "selected cell does not contain the midpoint"
                elif not all(_valid_eq(c, oned.property_x[0, 0, k],
                                       gen[i0, j0, k]) == 'held'
                             for k in range(2)):
                    bad = "values are not those of the selected column"
            obs.append(ob(
                f"midpoint path {len(obs)}: one-hot weight in the (clipped) "
                f"cell of the midpoint; its column is returned",
                'cex' if bad else 'held', group=grp, cls='LIN',
                seconds=time.time()-t1, note=bad or '',
                key=f"extract_1d midpoint: {bad}" if bad else None,
                cex=dict(kind='midpoint', nx=nx, ny=ny, what=bad)
                if bad else None))
    except Inconclusive as e:
        obs.append(ob("exploration budget", 'unknown', group=grp,
                      note=str(e)))
    finally:
        for m_, n_, v_ in saved:
            setattr(m_, n_, v_)
    obs.append(ob(f"reachability: every cell selected on some path "
                  f"({len(cells)} of {nx*ny})", 'twin_sat'
                  if len(cells) == nx*ny else 'twin_unsat', group=grp,
                  cls='LIN'))
    return obs


def case_merge(case):
    """extract_1d(merge=True): adjacent layers are combined exactly when ALL
    properties agree; values and thicknesses of the merged model describe
    the same layering."""
    nz, aniso = case
    E = shadow.load()
    c = set_ctx(Ctx(timeout_ms=60000))
    State.OBJECT_ALLOC = True
    warnings.filterwarnings('ignore')
    grp = f"extract_1d merge=True, {nz} layers, {aniso}"
    TM = _mesh_class(E)
    saved = [(E.models.meshes, 'TensorMesh', E.models.meshes.TensorMesh),
             (E.models.Model, '_check_positive_finite',
              E.models.Model._check_positive_finite)]
    E.models.meshes.TensorMesh = TM
    E.models.Model._check_positive_finite = lambda self, *a, **k: None
    names = ['property_x'] + (['property_z'] if aniso == 'VTI' else [])
    obs = []
    pats = set()

    def run():
        c.side, c.side_notes, c.recips, c.recip_den = [], [], {}, {}
        c._feas = None
        hz = sym_array('hz', (nz,), positive=True)
        grid = TM([_qarr([1, 2]), _qarr([1]), hz], (0., 0., 0.))
        lay = {nm: sym_array('L'+nm[-1], (nz,), positive=True)
               for nm in names}
        kw = {}
        for nm in names:
            a = np.empty((2, 1, nz), dtype=object)
            for k in range(nz):
                a[:, :, k] = lay[nm][k]
            kw[nm] = a.view(symx.SymArray)
        model = E.models.Model(grid, mapping='Resistivity', **kw)
        oned = model.extract_1d('midpoint', (0.5, 0.5), merge=True)
        return oned, lay, hz

    try:
        for (oned, lay, hz), pc, tr in c.explore(run, budget_s=600):
            c.pc = pc
            t1 = time.time()
            out = {nm: [Q._co(v) for v in np.asarray(
                getattr(oned, nm), dtype=object)[0, 0, :]] for nm in names}
            ohz = [Q._co(v) for v in np.asarray(oned.grid.h[2],
                                                dtype=object).ravel()]
            nrun = len(ohz)
            bad = None
            # which original layers form each run: decided by the path
            # (equalities of adjacent layers); reconstruct greedily
            runs, j = [], 0
            for r in range(nrun):
                start = j
                j += 1
                while j < nz and all(c.valid(
                        symx.qt(lay[nm][j]) == symx.qt(lay[nm][j-1]),
                        label='same layer')[0] == 'held' for nm in names):
                    j += 1
                runs.append((start, j))
            if j != nz or any(len(out[nm]) != nrun for nm in names):
                bad = "merged model does not partition the layers"
            pats.add(tuple(runs))
            if bad is None:
                for r, (a_, b_) in enumerate(runs):
                    tot = Q(Fraction(0))
                    for k in range(a_, b_):
                        tot = tot + hz[k]
                        for nm in names:
                            if _valid_eq(c, out[nm][r],
                                         lay[nm][k]) != 'held':
                                bad = (f"merged layer {r} does not carry "
                                       f"the value of original layer {k} "
                                       f"({nm})")
                    if _valid_eq(c, ohz[r], tot) != 'held':
                        bad = bad or f"thickness of merged layer {r} wrong"
                # adjacent runs must differ in at least one property
                for r in range(nrun-1):
                    k = runs[r][1]
                    same = z3.And(*[symx.qt(lay[nm][k]) ==
                                    symx.qt(lay[nm][k-1]) for nm in names])
                    if c.valid(z3.Not(same), label='differ')[0] != 'held':
                        bad = bad or ("layers that may be identical are "
                                      "not merged")
            obs.append(ob(
                f"runs {runs}: merged values/thicknesses describe the same "
                f"layering; merged exactly where all properties agree",
                'cex' if bad else 'held', group=grp, cls='LIN',
                seconds=time.time()-t1, note=bad or '',
                key=f"extract_1d merge: {bad}" if bad else None,
                cex=dict(kind='merge', nz=nz, aniso=aniso,
                         runs=[list(x) for x in runs], what=bad)
                if bad else None))
    except Inconclusive as e:
        obs.append(ob("exploration budget", 'unknown', group=grp,
                      note=str(e)))
    finally:
        for m_, n_, v_ in saved:
            setattr(m_, n_, v_)
    obs.append(ob(f"reachability: {len(pats)} merge patterns of "
                  f"{2**(nz-1)}", 'twin_sat' if len(pats) == 2**(nz-1)
                  else 'twin_unsat', group=grp, cls='LIN', nontrivial=False))
    return obs


# ==========================================================================
# (B) layered simulation with an uninterpreted 1D modeller
# ==========================================================================
class Bipole:
    """empymod.bipole as ONE uninterpreted function; arguments are matched
    syntactically after the sound normalisation `norm` (inverse pairs,
    reciprocals, sqrt); the response is separable per frequency."""

    def __init__(self, c):
        self.c = c
        self.entries = []      # (ckey, normalised terms, {freq: Qc})
        self.table = {}
        self.ncalls = 0

    @staticmethod
    def _f(x):
        x = Q._co(x) if not isinstance(x, (int, float, np.generic)) else x
        if isinstance(x, Q):
            return float(x.c) if x.c is not None else None
        return float(x)

    def __call__(self, res, aniso=None, src=None, rec=None, depth=None,
                 freqtime=None, msrc=False, mrec=False, strength=0,
                 epermH=None, mpermH=None, **kw):
        self.ncalls += 1
        terms = [Q._co(v) for v in res]
        flags = [aniso is not None, epermH is not None, mpermH is not None]
        for extra in (aniso, epermH, mpermH):
            if extra is not None:
                terms += [Q._co(v) for v in extra]
        ckey = (tuple(float(v) for v in src), tuple(float(v) for v in rec),
                bool(msrc), bool(mrec), float(strength),
                tuple(self._f(v) for v in depth), tuple(flags), len(terms),
                tuple(sorted((k, str(v)) for k, v in kw.items())))
        memo = {}
        nterms = [norm(self.c, symx.qt(t_), memo) for t_ in terms]
        key = (ckey, tuple(t_.get_id() for t_ in nterms))
        hit = self.table.get(key)
        if hit is None:
            hit = {}
            self.table[key] = hit
            self.entries.append((ckey, nterms, hit))
        n_ent = [i for i, e in enumerate(self.entries) if e[2] is hit][0]
        out = np.empty(np.atleast_1d(freqtime).size, dtype=object)
        for i, f in enumerate(np.atleast_1d(freqtime)):
            f = float(f)
            if f not in hit:
                hit[f] = Qc.var(f"Resp{n_ent}[{f}]")
            out[i] = hit[f]
        return out.view(symx.SymArray)


GRID_H = ([2, 1, 2], [1, 2], [1, 2, 1])
MASKS = {'A': [[1, 0], [1, 1], [0, 0]], 'B': [[0, 0], [0, 1], [0, 1]],
         'empty': [[0, 0], [0, 0], [0, 0]], 'all': [[1, 1], [1, 1], [1, 1]]}


def build_layered(E, c, bip, method, mapping, aniso, mask, nan_flags=True,
                  nsrc=1):
    TM = _mesh_class(E)
    nx, ny, nz = 3, 2, 3
    grid = TM([_qarr(GRID_H[0]), _qarr(GRID_H[1]), _qarr(GRID_H[2])],
              (0., 0., -4.))
    names = ['property_x'] + (['property_z'] if aniso == 'VTI' else [])
    sig = {nm: sym_array('S'+nm[-1], (nz,), positive=True) for nm in names}
    M = getattr(E.maps, 'Map'+mapping)()
    kw = {}
    for nm in names:
        p = M.forward(sig[nm])
        a = np.empty((nx, ny, nz), dtype=object)
        for k in range(nz):
            a[:, :, k] = p[k]
        kw[nm] = a.view(symx.SymArray)
    model = E.models.Model(grid, mapping=mapping, **kw)
    src = [E.electrodes.TxElectricDipole((2.5+0.5*i, 1.5, -1.5, 20., 10.))
           for i in range(nsrc)]
    rec = [E.electrodes.RxElectricPoint((1.25, 2.5, -2.0, 30., 10.)),
           E.electrodes.RxMagneticPoint((3.75, 0.5, -2.0, 0., 0.))]
    shape = (nsrc, 2, 2)
    d = np.empty(shape, dtype=object)
    nanpat = np.zeros(shape, dtype=bool)
    for i in np.ndindex(*shape):
        if nan_flags and bool(B(z3.Bool(f"nan{list(i)}"))):
            d[i] = symx.NAN
            nanpat[i] = True
        else:
            d[i] = Qc.var(f"d{list(i)}")
    nf = Q.var('nf')
    c.assume(B(nf.t > 0))
    sv = E.surveys.Survey(src, rec, [1.0, 2.0], data=d.view(symx.SymArray),
                          noise_floor=nf)
    mk = np.array(MASKS[mask], dtype=bool)
    E.models.maps.ellipse_indices = lambda coo, p0, p1, **k: mk.copy()
    lopts = {'method': method}
    if method in ('cylinder', 'prism'):
        lopts['ellipse'] = {'radius': 1.0}
    sim = E.simulations.Simulation(
        sv, model, gridding='same', max_workers=1, verb=0, tqdm_opts=False,
        receiver_interpolation='linear', layered=True, layered_opts=lopts)
    return dict(sim=sim, sig=sig, names=names, nanpat=nanpat, grid=grid,
                src=src, rec=rec, M=M, model=model, d=d)


def case_layered(case):
    method, mapping, aniso, mask = case
    E = shadow.load()
    c = set_ctx(Ctx(timeout_ms=60000))
    State.OBJECT_ALLOC = True
    warnings.filterwarnings('ignore')
    grp = (f"layered simulation method={method} mapping={mapping} {aniso} "
           f"selection={mask}: symbolic NaN pattern, uninterpreted modeller")
    import empymod
    mp = E._multiprocessing
    saved = [(empymod, 'bipole', empymod.bipole),
             (E.models.maps, 'ellipse_indices',
              E.models.maps.ellipse_indices),
             (E.models.meshes, 'TensorMesh', E.models.meshes.TensorMesh),
             (mp, 'tqdm', mp.tqdm),
             (E.models.Model, '_check_positive_finite',
              E.models.Model._check_positive_finite)]
    # input validation is C14's subject (saves UF+NRA feasibility queries)
    E.models.Model._check_positive_finite = lambda self, *a, **k: None
    mp.tqdm = None
    E.models.meshes.TensorMesh = _mesh_class(E)
    sv13 = c13.install(E)
    obs = []
    pats = set()
    t0 = time.time()

    def run():
        c.side, c.side_notes, c.recips, c.recip_den = [], [], {}, {}
        c._feas = None
        c.__dict__['_sqrt_canon'] = {}
        bip = Bipole(c)
        empymod.bipole = bip
        X = build_layered(E, c, bip, method, mapping, aniso, mask)
        sim = X['sim']
        try:
            sim.compute()
            syn = np.array(sim.data.synthetic.data, dtype=object)
            allnan = bool(X['nanpat'].all())
            grad = None
            if not allnan:
                grad = np.array(sim.gradient, dtype=object)
            X['obsd'] = np.array(sim.data.observed.data, dtype=object)
            if grad is not None:
                X['wts'] = np.array(sim.data.weights.data, dtype=object)
                X['props'] = {nm: np.array(getattr(sim.model, nm),
                                           dtype=object, copy=True)
                              for nm in X['names']}
            # second round on the SAME model object after an in-place
            # update of its values (index assignment for the horizontal,
            # setter for the vertical property) and clean('computed')
            sig2 = {nm: sym_array('T'+nm[-1], (3,), positive=True)
                    for nm in X['names']}
            M = X['M']
            p2 = M.forward(sig2['property_x'])
            for k in range(3):
                sim.model.property_x[:, :, k] = p2[k]
            if 'property_z' in sig2:
                pz = M.forward(sig2['property_z'])
                a = np.empty(sim.model.shape, dtype=object)
                for k in range(3):
                    a[:, :, k] = pz[k]
                sim.model.property_z = a.view(symx.SymArray)
            sim.clean('computed')
            sim.compute()
            X['sig2'] = sig2
            X['syn2'] = np.array(sim.data.synthetic.data, dtype=object)
        except ZeroDivisionError:
            X['divzero'] = True
            return X, bip, None, None
        return X, bip, syn, grad

    try:
        for (X, bip, syn, grad), pc, tr in c.explore(run, budget_s=2400):
            c.pc = pc
            t1 = time.time()
            pats.add(tuple(X['nanpat'].ravel().tolist()))
            if X.get('divzero'):
                bad = "division by zero in the extraction (weights undefined)"
            else:
                bad = check_layered(E, c, X, bip, syn, grad)
            if bad is None:
                bad = check_layered(E, c, X, bip, X['syn2'], None,
                                    sig=X['sig2'])
                if bad:
                    bad = "after an in-place model update: "+bad
            obs.append(ob(
                f"NaN pattern {X['nanpat'].astype(int).ravel().tolist()}: "
                f"finite-data triples hold Bipole(layering, own source/"
                f"receiver/frequency), others NaN; FD gradient summed per "
                f"layer == misfit change under a uniform layer perturbation "
                f"x chain rule", ('unknown' if bad.endswith('(unknown)')
                                  else 'cex') if bad else 'held', group=grp,
                cls='POLY-ID', seconds=time.time()-t1, note=bad or '',
                key=f"layered: {bad}" if bad else None,
                cex=dict(kind='layered', method=method, mapping=mapping,
                         aniso=aniso, mask=mask, what=bad,
                         nan=X['nanpat'].astype(int).ravel().tolist())
                if bad else None))
    except Inconclusive as e:
        obs.append(ob("exploration budget", 'unknown', group=grp,
                      note=str(e)))
    finally:
        for m_, n_, v_ in saved:
            setattr(m_, n_, v_)
        c13.uninstall(E, sv13)
    obs.append(ob(f"reachability: all 16 NaN patterns explored "
                  f"({len(pats)})", 'twin_sat' if len(pats) == 16
                  else 'twin_unsat', group=grp, cls='LIN',
                  note=f"case wall {time.time()-t0:.1f}s"))
    return obs


def _oracle_resp(E, c, bip, X, sig_h, sig_v, s, r):
    """Bipole of the given layering for source s, receiver r (both
    frequencies)."""
    src, rec, grid = X['src'][s], X['rec'][r], X['grid']
    res = [1/Q._co(v) for v in sig_h]
    aniso = None
    if sig_v is not None:
        aniso = np.sqrt((np.array(sig_h, dtype=object) /
                         np.array(sig_v, dtype=object)).view(symx.SymArray))
    return bip(res=res, aniso=aniso, src=src.coordinates,
               rec=rec.coordinates, depth=grid.nodes_z[1:-1],
               freqtime=np.array([1.0, 2.0]), msrc=src.xtype != 'electric',
               mrec=rec.xtype != 'electric', strength=src.strength,
               epermH=None, mpermH=None, signal=None, epermV=None,
               mpermV=None, squeeze=True, verb=1)


def check_layered(E, c, X, bip, syn, grad, sig=None):
    sim, nanpat = X['sim'], X['nanpat']
    sig = sig or X['sig']
    vti = 'property_z' in sig
    sig_h = list(sig['property_x'])
    sig_v = list(sig['property_z']) if vti else None
    nsrc, nrec, nfreq = nanpat.shape
    allnan = bool(nanpat.all())
    # ---- responses ------------------------------------------------------
    for s in range(nsrc):
        for r in range(nrec):
            want = _oracle_resp(E, c, bip, X, sig_h, sig_v, s, r)
            for f in range(nfreq):
                got = syn[s, r, f]
                if nanpat[s, r, f] and not allnan:
                    if not isinstance(got, symx.NaNQ) and not (
                            isinstance(got, complex) and got != got):
                        return (f"datum without observation ({s},{r},{f}) "
                                f"is not NaN")
                    continue
                if isinstance(got, symx.NaNQ) or (
                        isinstance(got, complex) and got != got):
                    return (f"response ({s},{r},{f}) with finite observed "
                            f"data is NaN")
                if _valid_eq(c, got, want[f], 'resp') != 'held':
                    return (f"response is not the 1D modeller's response "
                            f"for the layering / its own source, receiver, "
                            f"frequency")
    if grad is None:
        return None
    # ---- finite-difference gradient, summed per layer -------------------
    nz = len(sig_h)
    shape = sim.model.shape
    comps = ['property_x'] + (['property_z'] if vti else [])
    if grad.shape != ((len(comps),) if vti else ())+tuple(shape):
        return f"gradient shape {grad.shape}"
    garr = grad if vti else grad[None, ...]
    obsd = X['obsd']
    wts = X['wts']
    for ci, nm in enumerate(comps):
        for k in range(nz):
            tot = Q(Fraction(0))
            for s in range(nsrc):
                for r in range(nrec):
                    fin = [f for f in range(nfreq) if not nanpat[s, r, f]]
                    if not fin:
                        continue
                    base = _oracle_resp(E, c, bip, X, sig_h, sig_v, s, r)
                    ph, pv = list(sig_h), (list(sig_v) if vti else None)
                    tgt = ph if nm == 'property_x' else pv
                    delta = tgt[k]*Fraction(0.0001)
                    tgt[k] = tgt[k]+delta
                    pert = _oracle_resp(E, c, bip, X, ph, pv, s, r)

                    def phi(resp):
                        acc = Q(Fraction(0))
                        for f in fin:
                            rr = Qc._co(resp[f])-Qc._co(obsd[s, r, f])
                            acc = acc + Q._co(wts[s, r, f])*rr.abs2()
                        return acc/2
                    tot = tot + (phi(pert)-phi(base))/delta
            # chain rule d sigma / d p of the mapping at this layer
            p = X['props'][nm][0, 0, k]
            sg = X['M'].backward(np.array([p], dtype=object).view(
                symx.SymArray))[0]
            dsdp = c14.ddx(c, symx.qt(sg), symx.qt(p))
            got = Q(Fraction(0))
            for i in range(shape[0]):
                for j in range(shape[1]):
                    gv = garr[ci][i, j, k]
                    if isinstance(gv, np.ndarray):
                        gv = gv.item()
                    if isinstance(gv, Qc):
                        if not _is0(gv.im):
                            return "gradient entry is not real"
                        gv = gv.re
                    if Q._co(gv) is None:
                        return f"gradient entry of type {type(gv)}: {gv!r}"
                    got = got + Q._co(gv)
            diff = norm(c, symx.qt(got) - symx.qt(tot)*dsdp)
            v = valid_min(c, diff == 0, label='layer gradient')
            if v != 'held':
                return (f"gradient of {nm} summed over layer {k} is not "
                        f"the finite difference of the misfit under a "
                        f"uniform perturbation ({v})")
    return None


# --------------------------------------------------------------------------
def replay(cex):
    import emg3d
    warnings.filterwarnings('ignore')
    kind = cex['kind']
    rng = np.random.default_rng(3)
    if kind in ('extract', 'midpoint'):
        nx, ny = cex['nx'], cex['ny']
        hx = rng.uniform(1, 3, nx)
        hy = rng.uniform(1, 3, ny)
        grid = emg3d.TensorMesh([hx, hy, np.array([1., 2.])], (0, 0, 0))
        mapping = cex.get('mapping', 'Resistivity')
        M = getattr(emg3d.maps, 'Map'+mapping)()
        lay = rng.uniform(0.5, 2, 2)
        vals = np.ones((nx, ny, 2))*M.forward(lay)[None, None, :]
        gen = M.forward(rng.uniform(0.5, 2, (nx, ny, 2)))
        msgs = []
        if kind == 'midpoint':
            for _ in range(200):
                p0 = rng.uniform(-1, hx.sum()+1, 2)
                p1 = rng.uniform(-1, hx.sum()+1, 2)
                m = emg3d.Model(grid, property_x=gen, mapping=mapping)
                oned, imat = m.extract_1d('midpoint', p0, p1,
                                          return_imat=True)
                mid = (p0+p1)/2
                i0 = int(np.clip(np.searchsorted(grid.nodes_x, mid[0],
                                                 'right')-1, 0, nx-1))
                j0 = int(np.clip(np.searchsorted(grid.nodes_y, mid[1],
                                                 'right')-1, 0, ny-1))
                e = np.zeros((nx, ny))
                e[i0, j0] = 1
                if not np.array_equal(imat, e) or not np.allclose(
                        oned.property_x[0, 0, :], gen[i0, j0, :]):
                    msgs.append(f"midpoint {mid}: wrong cell/column")
                    break
            return bool(msgs), "real extract_1d midpoint: " + (
                '; '.join(msgs) or 'as specified')
        mask = np.array(cex['mask'], dtype=bool)
        real = emg3d.maps.ellipse_indices
        emg3d.models.maps.ellipse_indices = lambda *a, **k: mask.copy()
        try:
            kw = {}
            if cex.get('aniso') == 'VTI':
                kw['property_z'] = vals*1.5 if mapping[-3:] == 'ity' and \
                    not mapping.startswith('L') else vals+0.1
            m = emg3d.Model(grid, property_x=vals, mapping=mapping, **kw)
            oned, imat = m.extract_1d(cex['method'], (0.5, 0.5), (1.5, 0.5),
                                      ellipse={'radius': 1.0},
                                      return_imat=True)
            mg = emg3d.Model(grid, property_x=gen, mapping=mapping)
            oned_g, imat_g = mg.extract_1d(cex['method'], (0.5, 0.5),
                                           (1.5, 0.5),
                                           ellipse={'radius': 1.0},
                                           return_imat=True)
        finally:
            emg3d.models.maps.ellipse_indices = real
        if not np.all(np.isfinite(imat)) or (imat < 0).any() or \
                abs(imat.sum()-1) > 1e-12:
            msgs.append(f"weights not >= 0 / sum {imat.sum()}")
        if mask.any():
            ix, iy = mask.nonzero()
            box = np.zeros_like(mask)
            box[ix.min():ix.max()+1, iy.min():iy.max()+1] = True
            sel = mask if cex['method'] == 'cylinder' else box
            area = np.outer(hx, hy)*sel
            if not np.allclose(imat, area/area.sum(), atol=1e-12):
                msgs.append("weights are not the area fractions of the "
                            "selection")
            logm = not mapping.startswith('L')
            w = area/area.sum()
            ref = np.einsum('ij,ijk->k', w, np.log10(gen) if logm else gen)
            ref = 10**ref if logm else ref
            if not np.allclose(oned_g.property_x[0, 0, :], ref, rtol=1e-10):
                msgs.append("general model: not the weighted mean")
        if not np.allclose(oned.property_x[0, 0, :], vals[0, 0, :],
                           rtol=1e-10, equal_nan=False):
            msgs.append("laterally invariant model not returned unchanged")
        return bool(msgs), (f"real extract_1d {cex['method']} mask "
                            f"{cex['mask']}: " + ('; '.join(msgs) or
                                                  'as specified'))
    if kind == 'merge':
        nz = cex['nz']
        vti = cex['aniso'] == 'VTI'
        msgs = []
        for trial in range(40):
            grid = emg3d.TensorMesh([np.array([1., 2.]), np.array([1.]),
                                     rng.uniform(1, 3, nz)], (0, 0, 0))
            vx = np.cumsum(rng.integers(0, 2, nz))+1.0
            vz = np.cumsum(rng.integers(0, 2, nz))+1.0 if vti else None
            kwz = dict(property_z=np.ones((2, 1, nz))*vz) if vti else {}
            m = emg3d.Model(grid, property_x=np.ones((2, 1, nz))*vx,
                            mapping='Resistivity', **kwz)
            o = m.extract_1d('midpoint', (0.5, 0.5), merge=True)
            # specification: a new layer starts where ANY property changes
            starts = [0]+[k for k in range(1, nz) if vx[k] != vx[k-1] or (
                vti and vz[k] != vz[k-1])]
            ends = starts[1:]+[nz]
            if o.shape[2] != len(starts):
                msgs.append(f"rho_h={vx.tolist()}"
                            f"{', rho_v='+str(vz.tolist()) if vti else ''}: "
                            f"{o.shape[2]} merged layers, expected "
                            f"{len(starts)}")
                continue
            for r, (a_, b_) in enumerate(zip(starts, ends)):
                if o.property_x[0, 0, r] != vx[a_] or (
                        vti and o.property_z[0, 0, r] != vz[a_]) or \
                        not np.isclose(o.grid.h[2][r],
                                       grid.h[2][a_:b_].sum()):
                    msgs.append(f"merged layer {r} wrong for rho_h="
                                f"{vx.tolist()}")
        return bool(msgs), ("real extract_1d(merge=True) on 40 random "
                            "layerings: " + ('; '.join(msgs[:2]) or
                                             'as specified'))
    if kind == 'layered':
        return replay_layered(cex)
    return False, 'unknown kind'


def replay_layered(cex):
    """Real empymod: layered simulation of a laterally invariant model vs a
    direct call of the 1D modeller; FD gradient per layer vs misfit
    change."""
    import emg3d
    import empymod
    rng = np.random.default_rng(11)
    mapping, aniso, method = cex['mapping'], cex['aniso'], cex['method']
    hx = np.array([2., 1., 2.])*500
    hy = np.array([1., 2.])*500
    hz = np.array([1., 2., 1.])*500
    grid = emg3d.TensorMesh([hx, hy, hz], (0, 0, -2000))
    M = getattr(emg3d.maps, 'Map'+mapping)()
    sig_h = np.array([0.3, 1.0, 3.0])
    sig_v = np.array([0.2, 0.5, 2.0])
    kw = dict(property_x=np.ones(grid.shape_cells) *
              M.forward(sig_h)[None, None, :])
    if aniso == 'VTI':
        kw['property_z'] = np.ones(grid.shape_cells) * \
            M.forward(sig_v)[None, None, :]
    model = emg3d.Model(grid, mapping=mapping, **kw)
    src = [emg3d.TxElectricDipole((1250., 750., -750., 20., 10.))]
    rec = [emg3d.RxElectricPoint((625., 1250., -1000., 30., 10.)),
           emg3d.RxMagneticPoint((1875., 250., -1000., 0., 0.))]
    freqs = [1.0, 2.0]
    nan = np.array(cex['nan'], dtype=bool).reshape(1, 2, 2)
    data = (rng.normal(size=(1, 2, 2))+1j*rng.normal(size=(1, 2, 2)))*1e-12
    data[nan] = np.nan+1j*np.nan
    survey = emg3d.Survey(src, rec, freqs, data=data, noise_floor=1e-13)
    mask = np.array(MASKS[cex['mask']], dtype=bool)
    real = emg3d.maps.ellipse_indices
    emg3d.models.maps.ellipse_indices = lambda *a, **k: mask.copy()
    lopts = {'method': method}
    if method in ('cylinder', 'prism'):
        lopts['ellipse'] = {'radius': 1.0}
    msgs = []
    try:
        sim = emg3d.Simulation(survey, model, gridding='same',
                               max_workers=1, verb=0, tqdm_opts=False,
                               layered=True, layered_opts=lopts)
        sim.compute()
        syn = sim.data.synthetic.data
        allnan = nan.all()

        def direct(sh, sv_, r):
            return empymod.bipole(
                src=src[0].coordinates, rec=rec[r].coordinates,
                depth=grid.nodes_z[1:-1], res=1/sh,
                aniso=None if aniso != 'VTI' else np.sqrt(sh/sv_),
                freqtime=freqs, msrc=False, mrec=r == 1, strength=1.0,
                verb=1, squeeze=True)
        for r in range(2):
            ref = direct(sig_h, sig_v, r)
            for f in range(2):
                if nan[0, r, f] and not allnan:
                    if not np.isnan(syn[0, r, f]):
                        msgs.append(f"datum ({r},{f}) without observation "
                                    f"is not NaN")
                elif not np.isclose(syn[0, r, f], ref[f], rtol=1e-8, atol=0):
                    msgs.append(f"response ({r},{f}) differs from the "
                                f"direct 1D modeller call")
        if not allnan and not msgs:
            g = sim.gradient
            garr = g if aniso == 'VTI' else g[None, ...]
            w = sim.data.weights.data

            def phi(sh, sv_):
                t = 0.0
                for r in range(2):
                    resp = direct(sh, sv_, r)
                    for f in range(2):
                        if not nan[0, r, f]:
                            t += (w[0, r, f]*abs(resp[f]-data[0, r, f])**2
                                  ).real/2
                return t
            p0 = phi(sig_h, sig_v)
            for ci in range(garr.shape[0]):
                for k in range(3):
                    sh, sv_ = sig_h.copy(), sig_v.copy()
                    tgt = sh if ci == 0 else sv_
                    d = tgt[k]*1e-4
                    tgt[k] += d
                    fd = (phi(sh, sv_)-p0)/d
                    pk = M.forward(np.array([(sig_h if ci == 0
                                              else sig_v)[k]]))
                    ch = np.ones(1)
                    M.derivative_chain(ch, pk)
                    ref = fd*ch[0]
                    got = garr[ci][:, :, k].sum()
                    if not np.isclose(got, ref, rtol=1e-4,
                                      atol=1e-6*abs(ref)):
                        msgs.append(f"gradient comp {ci} layer {k}: sum "
                                    f"{got:.6e} vs FD of misfit {ref:.6e}")
        if not msgs and 'in-place' in str(cex.get('what')):
            sig_h2 = np.array([2.0, 0.4, 1.5])
            sig_v2 = np.array([1.0, 0.3, 0.7])
            for k in range(3):
                sim.model.property_x[:, :, k] = M.forward(sig_h2)[k]
            if aniso == 'VTI':
                sim.model.property_z = np.ones(grid.shape_cells) * \
                    M.forward(sig_v2)[None, None, :]
            sim.clean('computed')
            sim.compute()
            syn2 = sim.data.synthetic.data
            for r in range(2):
                ref = direct(sig_h2, sig_v2, r)
                for f in range(2):
                    if not (nan[0, r, f] and not allnan) and not np.isclose(
                            syn2[0, r, f], ref[f], rtol=1e-8, atol=0):
                        msgs.append(f"after an in-place model update the "
                                    f"response ({r},{f}) is not the one of "
                                    f"the new layering")
    except Exception as e:      # noqa
        msgs.append(f"raised {e!r}"[:200])
    finally:
        emg3d.models.maps.ellipse_indices = real
    return bool(msgs), (f"real layered Simulation ({method}, {mapping}, "
                        f"{aniso}, NaN {cex['nan']}): " +
                        ('; '.join(msgs[:3]) or 'agrees with empymod'))


def _dispatch(job):
    return globals()[job[0]](job[1])


def main(tier):
    shadow.load()
    run = Run(PID, tier, design_ref='DESIGN.md §6 C19')
    run.functions.update(shadow.func_lines('emg3d/models.py',
                                           ['extract_1d']))
    run.functions.update(shadow.func_lines(
        'emg3d/_multiprocessing.py', ['layered', '_empymod_fwd',
                                      '_get_points', '_fd_gradient']))
    run.functions.update(shadow.func_lines(
        'emg3d/simulations.py', ['_compute_1d', '_set_layered_opts',
                                 'gradient', 'misfit', 'compute']))
    run.extra['hashes'] = {k: v for k, v in shadow.hashes().items()
                           if k in ('emg3d/models.py', 'emg3d/maps.py',
                                    'emg3d/_multiprocessing.py',
                                    'emg3d/simulations.py')}
    if tier == 'quick':
        ext = [(3, 2, 'cylinder', 'Conductivity', 'iso'),
               (3, 2, 'prism', 'LgResistivity', 'VTI'),
               (2, 3, 'cylinder', 'LnConductivity', 'full'),
               (2, 2, 'prism', 'Resistivity', 'iso')]
        mids = [(3, 2)]
        lay = [('cylinder', 'Conductivity', 'VTI', 'A'),
               ('prism', 'LgResistivity', 'iso', 'B'),
               ('midpoint', 'Resistivity', 'VTI', 'all'),
               ('source', 'LnConductivity', 'iso', 'all'),
               ('receiver', 'LgConductivity', 'VTI', 'all'),
               ('cylinder', 'LnResistivity', 'iso', 'empty')]
    else:
        ext = [(3, 3, m, mp_, an) for m in ('cylinder', 'prism')
               for mp_, an in (('Conductivity', 'iso'),
                               ('LgResistivity', 'VTI'))]
        ext += [(3, 2, m, mp_, 'full') for m in ('cylinder', 'prism')
                for mp_ in MAPS]
        mids = [(3, 2), (4, 3)]
        lay = [(m, mp_, an, mk) for m, mk in (
            ('cylinder', 'A'), ('cylinder', 'empty'), ('prism', 'B'),
            ('midpoint', 'all'), ('source', 'all'), ('receiver', 'all'))
            for mp_ in MAPS for an in ('iso', 'VTI')]
    jobs = [('case_layered', x) for x in lay]
    jobs += [('case_extract', x) for x in ext]
    jobs += [('case_midpoint', x) for x in mids]
    jobs += [('case_merge', x) for x in ([(3, 'VTI'), (3, 'iso')]
                                         if tier == 'quick' else
                                         [(3, 'VTI'), (4, 'VTI'),
                                          (4, 'iso')])]
    obs = pmap(_dispatch, jobs)
    run.add(obs)
    run.bounds = dict(
        extract_1d=dict(cases=ext, horizontal_cells="<= 3x2 quick, 3x3 "
                        "thorough", masks="ALL 2^(nx*ny) selections",
                        widths="symbolic > 0", layers=2),
        midpoint=mids,
        layered=dict(cases=lay, grid="3x2x3, exact rational widths",
                     survey="1 source, electric + magnetic receiver, 2 "
                     "frequencies", nan_patterns="all 16"))
    run.assumptions = [
        "empymod.bipole is ONE uninterpreted function of (layer "
        "resistivities, anisotropies, depths, source, receiver, flags, "
        "frequency), separable per frequency; arguments are matched by "
        "solver validity.  Agreement of empymod's numerics with any other "
        "1D modeller is outside the claim",
        "maps.ellipse_indices is a nondeterministic stub (any mask): the "
        "claim is independent of the ellipse geometry",
        "log10 / 10** / exp / log are axiomatised uninterpreted functions "
        "(C14); widths and values are exact reals",
        "the finite-difference step (relative 1e-4 on the conductivity) is "
        "the code's documented constant and part of the oracle",
    ]
    run.stubs = ["empymod.bipole -> uninterpreted function",
                 "maps.ellipse_indices -> arbitrary mask (A) / fixed masks "
                 "(B)", "meshes.TensorMesh -> BaseMesh subclass carrying "
                 "symbolic widths", "Model._check_positive_finite -> no-op "
                 "in (A) (C14's subject)", "process_map sequential branch "
                 "(tqdm None)"]
    run.outside = ["empymod's numerics (Hankel transforms)", "the ellipse "
                   "geometry of maps.ellipse_indices", "merge=True inside "
                   "the layered simulation",
                   "more than 3x3 horizontal cells", "jvec (not implemented "
                   "for layered)", "file/pool execution (C11)"]
    run.explanation = (
        "extract_1d runs with symbolic widths under every possible "
        "selection mask (path exploration over a nondeterministic ellipse "
        "stub); z3 decides the weight specification and that laterally "
        "invariant models are returned unchanged.  A shadow layered "
        "Simulation with a symbolic NaN pattern and an uninterpreted 1D "
        "modeller is explored path by path; z3 decides slot-wise equality "
        "with the modeller's response for the layering and the per-layer "
        "finite-difference identity of the gradient.")
    for o in obs[:3]:
        run.sample(dict(group=o['group'], label=o['label'][:200],
                        verdict=o['verdict'], note=o['note']))
    return run.finish(replay)
