"""C03 — every smoother is a consistent relaxation of the same system.

Real code (shadow): core.gauss_seidel, gauss_seidel_x/_y/_z, blocks_to_amat,
core.solve, solver.smoothing, solver._current_lr_dir.

(a) local systems == rows of the C02 reference operator (recording stub for
    core.solve returning fresh unknowns x with contract A_loc x = rhs);
(b) A_loc free of field/source symbols, rhs affine in them;
(c) boundary edges never written;
(d) core.solve returns the exact solution of the band system (cut-and-invert);
(e) smoothing() dispatch on grids with two-cell directions.
"""
import time
import itertools
from fractions import Fraction

import numpy as np
import z3

import symx
from symx import Q, Ctx, set_ctx, sym_array, State, shadow
from symx.cut import CutArray, invert
from . import fit
from .common import ob, Run, pmap, seed

PID = 'C03'
KERNELS = {0: 'gauss_seidel', 1: 'gauss_seidel_x', 2: 'gauss_seidel_y',
           3: 'gauss_seidel_z'}


def _sym_problem(shape, aniso='triaxial', sparse=False):
    """sparse: zero source and a field supported on ONE grid line per
    component (all other entries exactly zero) -- the error-propagation
    probe: many local right-hand sides are then exactly zero while the
    unknowns are not."""
    c = set_ctx(Ctx(timeout_ms=120000))
    State.OBJECT_ALLOC = True
    h = [sym_array(f"h{'xyz'[d]}", shape[d], positive=True) for d in range(3)]
    eta_x = sym_array('eta_x', shape)
    eta_y = sym_array('eta_y', shape) if aniso in ('HTI', 'triaxial') \
        else eta_x
    eta_z = sym_array('eta_z', shape) if aniso in ('VTI', 'triaxial') \
        else eta_x
    zeta = sym_array('zeta', shape)
    e = [sym_array(f"e{'xyz'[d]}", fit.edge_shape(shape, d))
         for d in range(3)]
    s = [sym_array(f"s{'xyz'[d]}", fit.edge_shape(shape, d))
         for d in range(3)]
    for d in range(3):
        for idx in fit.boundary_edges(shape, d):
            e[d][idx] = Q(Fraction(0))     # distinct object per entry
    if sparse is not False:
        dc, last = sparse          # the one component that carries a field
        for d in range(3):
            for idx in np.ndindex(*s[d].shape):
                s[d][idx] = Q(Fraction(0))
            d1, d2 = [k for k in range(3) if k != d]
            # first or last interior line (whichever the sweep starts with)
            l1 = shape[d1]-1 if last else 1
            l2 = shape[d2]-1 if last else 1
            for idx in np.ndindex(*e[d].shape):
                if d != dc or not (idx[d1] == l1 and idx[d2] == l2):
                    e[d][idx] = Q(Fraction(0))
    return c, h, [eta_x, eta_y, eta_z], zeta, e, s


class Recorder:
    """Stub for core.solve: records (A_loc, rhs), returns fresh unknowns."""

    def __init__(self, c, h, eta, zeta, e, s):
        self.c, self.h, self.eta, self.zeta, self.e, self.s = \
            c, h, eta, zeta, e, s
        self.blocks = []     # dict(A, rhs, x, rows)
        self.nblk = 0

    def _close_previous(self):
        """Locate the previous block's unknowns in the field and evaluate
        the reference operator rows on the field as it is *now*."""
        if not self.blocks or 'rows' in self.blocks[-1]:
            return
        blk = self.blocks[-1]
        ids = {x.t.get_id(): k for k, x in enumerate(blk['x'])}
        where = {}
        for d in range(3):
            a = self.e[d]
            for idx in np.ndindex(*a.shape):
                v = a[idx]
                if isinstance(v, Q) and v.c is None:
                    k = ids.get(v.t.get_id())
                    if k is not None:
                        if k in where:
                            where[k] = 'dup'
                        else:
                            where[k] = (d, idx)
        rows = {}
        for k, loc in where.items():
            if loc == 'dup':
                rows[k] = 'dup'
                continue
            d, idx = loc
            rows[k] = (d, idx, fit.apply_edge(
                self.h, self.eta, self.zeta, self.e, d, idx,
                Q(Fraction(0))) - self.s[d][idx])
        blk['rows'] = rows

    def __call__(self, amat, bvec):
        self._close_previous()
        n = len(bvec)
        A = [amat[k] for k in range(6*n)]
        rhs = [bvec[k] for k in range(n)]
        x = [Q(self.c.fresh(f"x{self.nblk}_")) for _ in range(n)]
        for k in range(n):
            bvec[k] = x[k]
        self.blocks.append(dict(A=A, rhs=rhs, x=x, n=n, no=self.nblk))
        self.nblk += 1

    def finish(self):
        self._close_previous()


def _loc_entry(A, n, i, j):
    if i < j:
        i, j = j, i
    if i-j > 5:
        return Q(Fraction(0))
    return A[i+5*j]


def _free_ids(term, acc):
    """ids of uninterpreted constants in a z3 term."""
    seen = set()
    stack = [term]
    while stack:
        t = stack.pop()
        i = t.get_id()
        if i in seen:
            continue
        seen.add(i)
        if z3.is_const(t):
            if t.decl().kind() == z3.Z3_OP_UNINTERPRETED:
                acc.add(i)
        else:
            stack.extend(t.children())
    return acc


def case_local_systems(case):
    """(a),(b),(c) for one kernel on one shape with nu sweeps."""
    lr, shape, nu, aniso = case[:4]
    sparse = len(case) > 4 and str(case[4]).startswith('sparse')
    E = shadow.load()
    c, h, eta, zeta, e, s = _sym_problem(
        shape, aniso, (max(lr-1, 0), case[4] == 'sparse_last')
        if sparse else False)
    before = [a.copy() for a in e]
    fs_ids = set()
    for arr in e+s:
        for v in arr.flat:
            if isinstance(v, Q) and v.c is None:
                fs_ids.add(v.t.get_id())
    rec = Recorder(c, h, eta, zeta, e, s)
    real_solve = E.core.solve
    E.core.solve = rec
    t0 = time.time()
    try:
        getattr(E.core, KERNELS[lr])(e[0], e[1], e[2], s[0], s[1], s[2],
                                     eta[0], eta[1], eta[2], zeta,
                                     h[0], h[1], h[2], nu)
        rec.finish()
    finally:
        E.core.solve = real_solve
    build_s = time.time()-t0
    grp = f"{KERNELS[lr]} shape={shape} nu={nu} aniso={aniso}" + (
        " zero source, field on one line" if sparse else "")
    obs = []
    if c.stats['forks']:
        # a data-dependent branch in a smoother (the kernels are straight-
        # line code): only one side was executed -> not a verdict
        obs.append(ob("harness: the kernel branched on a symbolic value "
                      f"({c.stats['forks']} forks); only one branch was "
                      "executed", 'error', group=grp, cls='-'))
    keyb = f"{KERNELS[lr]} local system != operator rows"
    nrows = 0
    for blk in rec.blocks:
        n = blk['n']
        rows = blk['rows']
        t1 = time.time()
        conj = []
        structural = None
        if len(rows) != n:
            structural = (f"block {blk['no']}: {n} unknowns but "
                          f"{len(rows)} written to the field")
        for k in range(n):
            r = rows.get(k)
            if r is None or r == 'dup':
                structural = structural or (
                    f"block {blk['no']}: unknown {k} written "
                    f"{'twice' if r == 'dup' else 'nowhere'}")
                continue
            d, idx, ref = r
            lhs = Q(Fraction(0))
            for j in range(n):
                a = _loc_entry(blk['A'], n, k, j)
                if isinstance(a, Q) and a.c is not None and a.c == 0:
                    continue
                lhs = lhs + a*blk['x'][j]
            lhs = lhs - blk['rhs'][k]
            conj.append(symx.qt(lhs) == symx.qt(ref))
            nrows += 1
        if structural:
            obs.append(ob(f"block {blk['no']} structure", 'cex', group=grp,
                          cls='concrete', note=structural, key=keyb,
                          cex=dict(kind='local', lr=lr, shape=list(shape),
                                   nu=nu, aniso=aniso)))
            continue
        vd, m = c.valid(z3.And(*conj), label=f"block {blk['no']}")
        obs.append(ob(
            f"block {blk['no']} ({n} rows): A_loc x - rhs == (A e' - s) "
            f"on the block's edges", vd, group=grp, seconds=time.time()-t1,
            key=keyb, cex=(dict(kind='local', lr=lr, shape=list(shape),
                                nu=nu, aniso=aniso) if vd == 'cex' else None)))
        # (b) A_loc has no field/source symbol (syntactic on solver terms)
        ids = set()
        for a in blk['A']:
            if isinstance(a, Q) and a.c is None:
                _free_ids(a.t, ids)
        dep = ids & fs_ids
        xids = {x.t.get_id() for b2 in rec.blocks for x in b2['x']}
        dep |= ids & xids
        obs.append(ob(f"block {blk['no']}: A_loc free of field/source "
                      f"symbols", 'cex' if dep else 'held', cls='syntactic',
                      group=grp, nontrivial=False,
                      key=f"{KERNELS[lr]} local matrix depends on field",
                      cex=(dict(kind='affine', lr=lr, shape=list(shape))
                           if dep else None)))
    # (b') rhs affine in (field, source): second difference vanishes
    if rec.blocks:
        blk = rec.blocks[-1]
        allv = []
        for arr in e+s:
            for v in arr.flat:
                if isinstance(v, Q) and v.c is None:
                    allv.append(v.t)
        for b2 in rec.blocks:
            allv.extend(x.t for x in b2['x'])
        u1 = [z3.Real(f"u1!{k}") for k in range(len(allv))]
        u2 = [z3.Real(f"u2!{k}") for k in range(len(allv))]
        zero = [z3.RealVal(0)]*len(allv)
        t1 = time.time()
        conj = []
        for r in blk['rhs']:
            t = symx.qt(r)
            f12 = z3.substitute(t, *[(a, b+c2) for a, b, c2 in
                                     zip(allv, u1, u2)])
            f1 = z3.substitute(t, *zip(allv, u1))
            f2 = z3.substitute(t, *zip(allv, u2))
            f0 = z3.substitute(t, *zip(allv, zero))
            conj.append(f12-f1-f2+f0 == 0)
        vd, m = c.valid(z3.And(*conj), label='affine rhs')
        obs.append(ob(f"last block: rhs is affine in (field, source) "
                      f"[{len(conj)} rows]", vd, group=grp,
                      seconds=time.time()-t1,
                      key=f"{KERNELS[lr]} rhs not affine",
                      cex=(dict(kind='affine', lr=lr, shape=list(shape))
                           if vd == 'cex' else None)))
    # (c) boundary edges never written (object identity)
    written = 0
    for d in range(3):
        for idx in fit.boundary_edges(shape, d):
            if e[d][idx] is not before[d][idx]:
                written += 1
    obs.append(ob("tangential boundary entries never written",
                  'cex' if written else 'held', cls='concrete', group=grp,
                  nontrivial=False, note=f"{written} written",
                  key=f"{KERNELS[lr]} writes boundary edge",
                  cex=(dict(kind='boundary', lr=lr, shape=list(shape), nu=nu)
                       if written else None)))
    # every interior edge is relaxed at least once per sweep
    touched = set()
    for blk in rec.blocks:
        for k, r in blk['rows'].items():
            if r != 'dup':
                touched.add((r[0], r[1]))
    allint = {(d, idx) for d in range(3)
              for idx in fit.interior_edges(shape, d)}
    missing = allint - touched
    obs.append(ob("every interior edge is an unknown of some block",
                  'cex' if missing else 'held', cls='concrete', group=grp,
                  nontrivial=False, note=f"missing {sorted(missing)[:4]}",
                  key=f"{KERNELS[lr]} skips interior edges",
                  cex=(dict(kind='coverage', lr=lr, shape=list(shape), nu=nu)
                       if missing else None)))
    # sweep ordering: nu sweeps of equal length; every sweep relaxes the
    # blocks in exactly the reverse order of the previous one (forward /
    # backward alternation), and sweep k+2 repeats sweep k.
    sigs = [tuple(sorted((r[0], r[1]) for r in blk['rows'].values()
                         if r != 'dup')) for blk in rec.blocks]
    order_ok = True
    why = ''
    if nu > 0 and len(sigs) % nu == 0 and sigs:
        per = len(sigs)//nu
        sweeps = [sigs[k*per:(k+1)*per] for k in range(nu)]
        for k in range(1, nu):
            if sweeps[k] != sweeps[k-1][::-1]:
                order_ok = False
                why = f"sweep {k+1} is not the reverse of sweep {k}"
                break
    else:
        order_ok = False
        why = f"{len(sigs)} blocks for nu={nu}"
    obs.append(ob("sweeps alternate forward/backward block ordering",
                  'held' if order_ok else 'cex', cls='concrete', group=grp,
                  nontrivial=False, note=why,
                  key=f"{KERNELS[lr]} sweep ordering does not alternate",
                  cex=(dict(kind='order', lr=lr, shape=list(shape), nu=nu)
                       if not order_ok else None)))
    # twin
    r3, _ = c.check(label='twin')
    obs.append(ob("twin: side conditions satisfiable", 'twin_sat'
                  if r3 == 'sat' else 'twin_unsat', group=grp,
                  cls='NRA-small'))
    obs[0]['note'] = (f"build {build_s:.2f}s, {len(rec.blocks)} blocks, "
                      f"{nrows} rows")
    return obs


def case_band_solve(case):
    """(d) core.solve: exact solution of the band system, n unknowns."""
    n = case
    E = shadow.load()
    c = set_ctx(Ctx(timeout_ms=120000))
    State.OBJECT_ALLOC = True
    amat = CutArray('a', 6*n)
    bvec = CutArray('b', n)
    ain = [q.t for q in amat.inputs]
    bin_ = [q.t for q in bvec.inputs]
    t0 = time.time()
    E.core.solve(amat, bvec)
    x = [symx.qt(bvec[j]) for j in range(n)]

    def aent(i, j):
        if i < j:
            i, j = j, i
        return ain[i+5*j] if i-j <= 5 else None
    goals = []
    for i in range(n):
        g = -bin_[i]
        for j in range(n):
            a = aent(i, j)
            if a is not None:
                g = g + a*x[j]
        goals.append(invert(g, amat, bvec))
    build_s = time.time()-t0
    grp = f"core.solve n={n}"
    t1 = time.time()
    vd, m = c.valid(z3.And(*[g == 0 for g in goals]), label=grp)
    cex = None
    if vd == 'cex':
        # well separated witness: all final variables in [1/2, 2]
        fin = set()
        for g in goals:
            _free_ids(g, fin)
        cons = []
        allfin = {}
        for g in goals:
            for t in _consts(g):
                allfin[t.get_id()] = t
        for t in allfin.values():
            cons += [t >= Fraction(1, 2), t <= 2]
        big = z3.Or(*[z3.Or(g >= Fraction(1, 10), g <= -Fraction(1, 10))
                      for g in goals])
        r2, m2 = c.check(big, *cons, label=grp+' (sep)')
        if r2 == 'sat':
            m = m2
        A_in = [float(symx.model_value(m, invert(a, amat, bvec)))
                for a in ain]
        b_in = [float(symx.model_value(m, invert(b, amat, bvec)))
                for b in bin_]
        cex = dict(kind='band', n=n, amat=A_in, bvec=b_in)
    return [ob(f"A x == b for all {n} rows (cut-and-invert identity)", vd,
               group=grp, seconds=time.time()-t1, cex=cex,
               key="core.solve does not solve the band system",
               note=f"build {build_s:.2f}s cuts={amat.ncut+bvec.ncut} "
                    f"uncut={amat.nuncut+bvec.nuncut}")]


def _consts(term):
    seen = set()
    out = []
    stack = [term]
    while stack:
        t = stack.pop()
        i = t.get_id()
        if i in seen:
            continue
        seen.add(i)
        if z3.is_const(t):
            if t.decl().kind() == z3.Z3_OP_UNINTERPRETED:
                out.append(t)
        else:
            stack.extend(t.children())
    return out


class _Duck:
    pass


def case_dispatch(case):
    """(e) solver.smoothing: kernels invoked for lr code on this shape."""
    lr, shape = case
    E = shadow.load()
    set_ctx(Ctx())
    State.OBJECT_ALLOC = False
    calls = []
    saved = {}
    for k, name in KERNELS.items():
        saved[name] = getattr(E.core, name)
        setattr(E.core, name, (lambda n: (lambda *a: calls.append(n)))(name))
    try:
        grid = _Duck()
        grid.shape_cells = tuple(shape)
        grid.h = [np.ones(n) for n in shape]
        model = _Duck()
        model.grid = grid
        model.eta_x = model.eta_y = model.eta_z = model.zeta = None
        f = _Duck()
        f.fx = f.fy = f.fz = None
        E.solver.smoothing(model, f, f, 1, lr)
    finally:
        for name, fn in saved.items():
            setattr(E.core, name, fn)
    req = {1: 'x', 2: 'y', 3: 'z', 4: 'yz', 5: 'xz', 6: 'xy', 7: 'xyz',
           0: ''}[lr]
    want = [f"gauss_seidel_{d}" for d in 'xyz'
            if d in req and shape['xyz'.index(d)] > 2]
    if not want:
        want = ['gauss_seidel']
    ok = calls == want
    return [ob(f"lr={lr} shape={shape}: kernels {calls}", 'held' if ok else
               'cex', cls='concrete', group='dispatch', nontrivial=False,
               note=f"expected {want}",
               key=f"smoothing dispatch lr={lr} two-cell dirs="
                   f"{[d for d in 'xyz' if shape['xyz'.index(d)] == 2]}",
               cex=(dict(kind='dispatch', lr=lr, shape=list(shape),
                         got=calls, want=want) if not ok else None))]


# --------------------------------------------------------------------------
def replay(cex):
    import emg3d
    kind = cex['kind']
    if kind == 'band':
        n = cex['n']

        def run_one(amat, b):
            full = np.zeros((n, n))
            for j in range(n):
                for i in range(j, min(n, j+6)):
                    full[i, j] = full[j, i] = amat[i+5*j]
            if np.linalg.cond(full) > 1e10:
                return None
            want = np.linalg.solve(full, b)
            a2, b2 = amat.copy(), b.copy()
            emg3d.core.solve(a2, b2)
            return np.abs(b2-want).max()/max(1.0, np.abs(want).max())
        err = run_one(np.array(cex['amat'], dtype=float),
                      np.array(cex['bvec'], dtype=float))
        src = "solver-model inputs"
        if err is None or not err > 1e-8:
            # model inputs are (near-)singular for numpy: search nearby
            # diagonally dominant band systems of the same size
            rng = np.random.default_rng(0)
            src = "random diagonally dominant band systems of the same size"
            err = 0.0
            for _ in range(20):
                amat = rng.uniform(-1, 1, 6*n)
                amat[::6] = 8+rng.uniform(0, 1, n)
                e1 = run_one(amat, rng.uniform(-1, 1, n))
                if e1 is not None:
                    err = max(err, e1)
        return err > 1e-8, (f"core.solve vs numpy.linalg.solve, n={n}, "
                            f"{src}: max rel. diff {err:.3e}")
    if kind in ('local', 'boundary', 'coverage', 'affine'):
        # numeric replay through the compiled kernels: exact solution must
        # be a fixed point; last block's equations must hold; boundary kept.
        shape = tuple(cex['shape'])
        lr = cex['lr']
        nu = cex.get('nu', 1)
        return _replay_kernel(shape, lr, nu)
    if kind == 'order':
        return _replay_order(tuple(cex['shape']), cex['lr'], cex['nu'])
    if kind == 'dispatch':
        return _replay_dispatch(cex)
    return True, 'structural'


def _replay_kernel(shape, lr, nu, aniso='triaxial'):
    import emg3d
    rng = np.random.default_rng(3)
    h = [rng.uniform(.5, 2, n) for n in shape]
    eta = [-(rng.uniform(.5, 2, shape)+1j*rng.uniform(.5, 2, shape))
           for _ in range(3)]
    zeta = rng.uniform(.5, 2, shape)
    e = [rng.normal(size=fit.edge_shape(shape, d)) +
         1j*rng.normal(size=fit.edge_shape(shape, d)) for d in range(3)]
    for d in range(3):
        for idx in fit.boundary_edges(shape, d):
            e[d][idx] = 0
    ref = fit.apply(h, eta, zeta, e, 0.0)
    s = [np.zeros_like(x) for x in e]
    for (d, idx), v in ref.items():
        s[d][idx] = v
    e2 = [x.copy() for x in e]
    kern = getattr(emg3d.core, KERNELS[lr])
    kern(e2[0], e2[1], e2[2], s[0], s[1], s[2], eta[0], eta[1], eta[2],
         zeta, h[0], h[1], h[2], nu)
    dfix = max(np.abs(a-b).max() for a, b in zip(e, e2))
    # boundary
    s2 = [rng.normal(size=x.shape)+0j for x in e]
    e3 = [x.copy() for x in e]
    kern(e3[0], e3[1], e3[2], s2[0], s2[1], s2[2], eta[0], eta[1], eta[2],
         zeta, h[0], h[1], h[2], nu)
    bnd = max(abs(e3[d][idx]) for d in range(3)
              for idx in fit.boundary_edges(shape, d))
    # zero source: the smoother is linear in the field; probe with a field
    # supported on one grid line per component (exactly zero elsewhere)
    def S(f):
        f = [x.copy() for x in f]
        z = [np.zeros_like(x) for x in f]
        kern(f[0], f[1], f[2], z[0], z[1], z[2], eta[0], eta[1], eta[2],
             zeta, h[0], h[1], h[2], nu)
        return f
    dlin = 0.0
    for last in (False, True):
        e1 = [np.zeros_like(x) for x in e]
        for d in [max(lr-1, 0)] if lr < 4 else range(3):
            d1, d2 = [k for k in range(3) if k != d]
            l1 = shape[d1]-1 if last else 1
            l2 = shape[d2]-1 if last else 1
            for idx in fit.interior_edges(shape, d):
                if idx[d1] == l1 and idx[d2] == l2:
                    e1[d][idx] = e[d][idx]
        a, b, ab = S(e1), S(e), S([x+y for x, y in zip(e1, e)])
        dlin = max(dlin, max(np.abs(z_-x-y).max()
                             for x, y, z_ in zip(a, b, ab)))
    bad = dfix > 1e-9 or bnd > 0 or dlin > 1e-9
    return bad, (f"compiled {KERNELS[lr]} on {shape}, nu={nu}: exact "
                 f"solution moved by {dfix:.3e}; max |boundary| after "
                 f"sweep {bnd:.3e}; zero source, S(e1+e2)-S(e1)-S(e2) = "
                 f"{dlin:.3e} for e1 on one line")


def _replay_order(shape, lr, nu):
    """nu sweeps must equal (nu-2) sweeps followed by 2 sweeps, and an odd
    count must equal (nu-1) sweeps followed by a sweep in the direction of
    sweep 1 — on the compiled kernels."""
    import emg3d
    rng = np.random.default_rng(4)
    h = [rng.uniform(.5, 2, n) for n in shape]
    eta = [-(rng.uniform(.5, 2, shape)+1j*rng.uniform(.5, 2, shape))
           for _ in range(3)]
    zeta = rng.uniform(.5, 2, shape)
    e = [rng.normal(size=fit.edge_shape(shape, d))+0j for d in range(3)]
    for d in range(3):
        for idx in fit.boundary_edges(shape, d):
            e[d][idx] = 0
    s = [rng.normal(size=x.shape)+0j for x in e]
    kern = getattr(emg3d.core, KERNELS[lr])

    def run(e0, n):
        e1 = [x.copy() for x in e0]
        kern(*e1, *s, *eta, zeta, *h, n)
        return e1
    worst = 0.0
    for n in range(3, nu+1):
        a = run(e, n)
        b = run(run(e, n-2), 2) if n % 2 == 0 else run(run(e, n-1), 1)
        sc = max(np.abs(x).max() for x in a)
        worst = max(worst, max(np.abs(x-y).max() for x, y in zip(a, b))/sc)
    return worst > 1e-9, (f"compiled {KERNELS[lr]} on {shape}: nu sweeps vs "
                          f"composition of alternating sweeps differ by "
                          f"{worst:.3e} (nu<={nu})")


def _replay_dispatch(cex):
    import emg3d
    shape = tuple(cex['shape'])
    lr = cex['lr']
    calls = []
    saved = {}
    for name in KERNELS.values():
        saved[name] = getattr(emg3d.core, name)
        setattr(emg3d.core, name,
                (lambda n: (lambda *a: calls.append(n)))(name))
    try:
        grid = emg3d.meshes.BaseMesh([np.ones(n) for n in shape], (0, 0, 0))
        model = _Duck()
        model.grid = grid
        model.eta_x = model.eta_y = model.eta_z = model.zeta = None
        f = _Duck()
        f.fx = f.fy = f.fz = None
        emg3d.solver.smoothing(model, f, f, 1, lr)
    finally:
        for name, fn in saved.items():
            setattr(emg3d.core, name, fn)
    return calls != cex['want'], (f"real smoothing(lr={lr}) on {shape} "
                                  f"called {calls}, expected {cex['want']}")


def jit_vs_source():
    import emg3d
    rng = np.random.default_rng(seed()+5)
    worst = 0.0
    for lr, shape in [(0, (3, 4, 2)), (1, (4, 3, 3)), (2, (3, 4, 3)),
                      (3, (2, 3, 5))]:
        h = [rng.uniform(.5, 2, n) for n in shape]
        eta = [-(rng.uniform(.5, 2, shape)+1j*rng.uniform(.5, 2, shape))
               for _ in range(3)]
        zeta = rng.uniform(.5, 2, shape)
        e = [rng.normal(size=fit.edge_shape(shape, d))+0j for d in range(3)]
        for d in range(3):
            for idx in fit.boundary_edges(shape, d):
                e[d][idx] = 0
        s = [rng.normal(size=x.shape)+0j for x in e]
        e1 = [x.copy() for x in e]
        e2 = [x.copy() for x in e]
        k = getattr(emg3d.core, KERNELS[lr])
        k(*e1, *s, *eta, zeta, *h, 2)
        k.py_func(*e2, *s, *eta, zeta, *h, 2)
        sc = max(np.abs(x).max() for x in e2)
        worst = max(worst, max(np.abs(a-b).max() for a, b in zip(e1, e2))/sc)
    return worst


def _dispatch(job):
    fn, case = job
    return globals()[fn](case)


def main(tier):
    shadow.load()
    run = Run(PID, tier, design_ref='DESIGN.md §6 C03')
    run.functions.update(shadow.func_lines(
        'emg3d/core.py', ['gauss_seidel', 'gauss_seidel_x', 'gauss_seidel_y',
                          'gauss_seidel_z', 'blocks_to_amat', 'solve']))
    run.functions.update(shadow.func_lines(
        'emg3d/solver.py', ['smoothing', '_current_lr_dir']))
    run.extra['hashes'] = {k: v for k, v in shadow.hashes().items()
                           if k in ('emg3d/core.py', 'emg3d/solver.py')}
    jobs = []
    if tier == 'quick':
        pt_shapes = [(2, 2, 2), (3, 2, 2), (2, 3, 3), (3, 3, 3), (4, 3, 2),
                     (3, 4, 4)]
        line_n = (3, 4)
        other = [(2, 2), (3, 2), (2, 3), (3, 3)]
        nus = {0: (1, 2), 'line': (1, 2)}
        bands = [1, 2, 5, 6, 7, 11, 12, 16]
    else:
        pt_shapes = [s for s in itertools.product((2, 3, 4, 5), repeat=3)
                     if int(np.prod(s)) <= 80]
        line_n = (3, 4, 5, 6, 7, 8)
        other = [(2, 2), (3, 2), (2, 3), (3, 3), (4, 2), (2, 4), (4, 3)]
        nus = {0: (1, 2, 3, 4), 'line': (1, 2, 3, 4)}
        bands = list(range(1, 37))
    if tier == 'quick':
        for nu in (3, 4):
            jobs.append(('case_local_systems', (0, (2, 3, 3), nu,
                                                'triaxial')))
            jobs.append(('case_local_systems', (1, (3, 2, 3), nu,
                                                'triaxial')))
            jobs.append(('case_local_systems', (2, (2, 3, 3), nu,
                                                'triaxial')))
            jobs.append(('case_local_systems', (3, (3, 2, 3), nu,
                                                'triaxial')))
    for shp in pt_shapes:
        for nu in nus[0]:
            if tier != 'quick' and nu > 2 and int(np.prod(shp)) > 27:
                continue
            jobs.append(('case_local_systems', (0, shp, nu, 'triaxial')))
    for lr in (1, 2, 3):
        for n in line_n:
            for o in other:
                shp = list(o)
                shp.insert(lr-1, n)
                for nu in nus['line']:
                    if nu > 2 and (n > 4 or max(o) > 3):
                        continue
                    jobs.append(('case_local_systems',
                                 (lr, tuple(shp), nu, 'triaxial')))
    # zero source, field supported on one line (error-propagation probe):
    # local right-hand sides that are exactly zero
    for lr, shp in [(0, (3, 3, 3)), (1, (3, 3, 3)), (2, (3, 3, 3)),
                    (3, (3, 3, 3)), (1, (4, 3, 2)), (2, (3, 4, 3)),
                    (3, (2, 3, 4))]:
        for nu in (1, 2):
            for mode in ('sparse', 'sparse_last'):
                jobs.append(('case_local_systems', (lr, shp, nu, 'triaxial',
                                                    mode)))
    # anisotropy aliasing cases on one shape per kernel
    for lr, shp in [(0, (3, 3, 3)), (1, (3, 2, 3)), (2, (3, 3, 2)),
                    (3, (2, 3, 3))]:
        for an in ('iso', 'VTI', 'HTI'):
            jobs.append(('case_local_systems', (lr, shp, 1, an)))
    for n in bands:
        jobs.append(('case_band_solve', n))
    for lr in range(8):
        for shp in [(2, 2, 2), (2, 3, 4), (3, 2, 4), (3, 4, 2), (2, 2, 4),
                    (2, 4, 2), (4, 2, 2), (3, 3, 3)]:
            jobs.append(('case_dispatch', (lr, shp)))

    def size(j):
        if j[0] == 'case_local_systems':
            return int(np.prod(j[1][1]))*j[1][2]*(3 if j[1][0] else 1)
        if j[0] == 'case_band_solve':
            return j[1]*3
        return 0
    jobs.sort(key=lambda j: -size(j))
    obs = pmap(_dispatch, jobs)
    run.add(obs)
    t0 = time.time()
    worst = jit_vs_source()
    run.validation.append(dict(
        what="compiled smoothers vs their py_func on random inputs, nu=2",
        max_rel_diff=worst, ok=bool(worst < 1e-10),
        seconds=round(time.time()-t0, 2)))
    if not worst < 1e-10:
        run.error(f"jit smoother deviates from python source: {worst}")
    run.bounds = dict(
        point_smoother_shapes=pt_shapes, line_cells=line_n,
        line_other_dirs=other, sweeps=nus, band_sizes=bands,
        dispatch="lr codes 0..7 x 8 shapes with two-cell directions",
        symbolic="all widths (>0), eta_x/y/z, zeta, field (PEC boundary "
                 "entries 0), source, and the solution vector returned by "
                 "the stubbed solve")
    run.assumptions = [
        "exact field arithmetic (IEEE-754 rounding, pivot growth outside)",
        "pivots of the band factorisation are non-zero (the code's own "
        "documented precondition), encoded as reciprocal side conditions",
        "fixed-point and last-block-exact clauses follow from (a) local "
        "system == operator rows for all x, plus (d) solve exact, plus "
        "non-singularity of the local system (mathematics, not solver)",
        "shape-bound argument as C02",
    ]
    run.stubs = [
        "core.solve inside the smoothers -> recording stub returning fresh "
        "unknowns x (contract A_loc x = rhs, proved separately in (d))",
        "numba.njit -> identity",
        "kernels inside solver.smoothing -> call recorders (dispatch only)"]
    run.outside = ["conditioning / pivot growth", "grids beyond the bounds",
                   "numba code generation (validated numerically)"]
    run.explanation = (
        "The smoother kernels' source is executed on z3 Real terms with the "
        "inner band solver replaced by a recording stub; for every relaxed "
        "block the solver decides that the local system handed to the band "
        "solver equals the rows of the C02 reference operator on the "
        "updated field (for all widths, model, field, source and all "
        "solution vectors). core.solve itself is proved exact per size n by "
        "cut-and-invert: its in-place updates are inverted so that A x = b "
        "is a polynomial identity in the final variables.")
    for o in obs[:3]:
        run.sample(dict(group=o['group'], label=o['label'],
                        verdict=o['verdict'], seconds=o['seconds']))
    return run.finish(replay)
