"""C18 — the command-line interface is equivalent to the Python API for every
documented option (parser / routing / acceptance core).

Real code (shadow): cli.parser.parse_config_file (complete), cli.run.
simulation (with the file system, the logger and the Simulation class as
recording stubs), and — for the acceptance of every routed option — the real
Simulation.__init__, meshes.estimate_gridding_opts / construct_mesh,
solver.solve (numerics stubbed), Survey.add_noise, Survey.select,
Model.extract_1d / maps.ellipse_indices.

The list of documented options is re-read from docs/manual/cli.rst on every
run.  configparser.ConfigParser is replaced by a model whose typed getters
return SYMBOLIC values (getint -> integer variable, getfloat / float(get) ->
real variable, getboolean -> both truth values, every fork explored) and
whose terminal arguments are symbolic-or-absent; key PRESENCE is enumerated
one documented key at a time (pairs of the precedence-relevant keys).
Decided:
  (1) every documented key is accepted by the parser and its value arrives,
      unchanged and with the documented type, in the place from which run.py
      hands it to the API (simulation kwargs, solver_opts, gridding_opts,
      noise options, data selection, layered options, file names);
  (2) an undocumented key in any section is rejected with an error;
  (3) terminal arguments take precedence over the configuration file, which
      takes precedence over the default (nproc, layered, file names, path);
  (4) every routed option is accepted by the API function that receives it
      (no 'unexpected keyword' further down);
  (5) run.py passes the parsed dictionaries verbatim to Simulation(...),
      survey.select(...), compute(observed=True, **noise), for the three
      functions and dry runs.
Equality of the files written by a real CLI run and an API run (whole-
program, real solves and file formats) is outside the claim.
"""
import os
import re
import time
import warnings
import itertools
from fractions import Fraction

import numpy as np
import z3

import symx
from symx import Q, Z, B, Ctx, set_ctx, State, shadow, Inconclusive
from .common import ob, Run, pmap, REPO

PID = 'C18'


# --------------------------------------------------------------------------
def documented():
    """{section: [(key, kind)]} from docs/manual/cli.rst (kind from the
    comment: bool/int/float/string/list/list of lists/...)."""
    text = open(os.path.join(REPO, 'docs', 'manual', 'cli.rst'),
                encoding='utf-8').read()
    start = text.index('``emg3d.cfg``::')
    out, sec = {}, None
    for line in text[start:].splitlines()[1:]:
        if line.strip() and not line.startswith('  '):
            break                          # end of the literal block
        m = re.match(r'\s*\[(\w+)\]', line)
        if m:
            sec = m.group(1)
            out[sec] = []
            continue
        m = re.match(r'\s*#\s*([a-z_]+)\s*=\s*([^#]*)(#\s*(.*))?$', line)
        if m and sec:
            out[sec].append((m.group(1), (m.group(4) or '').strip(),
                             m.group(2).strip()))
    return out


# kinds of the parser's typed access (how the value is obtained)
BOOL = {'sslsolver', 'semicoarsening', 'linerelaxation', 'plain', 'layered',
        'add_noise', 'remove_empty', 'merge', 'check_foci',
        'lambda_from_center'}
INT = {'max_workers', 'verb', 'maxit', 'nu_init', 'nu_pre', 'nu_coarse',
       'nu_post', 'clevel'}
FLOAT = {'tol', 'tol_gradient', 'min_offset', 'max_offset', 'mean_noise',
         'radius', 'factor', 'minor', 'frequency', 'seasurface',
         'max_buffer', 'lambda_factor'}
LIST = {'properties': '0.3, 1, 1e5', 'center': '0, 0, 0',
        'cell_number': '8, 16, 32, 64, 128', 'cell_numbers':
        '8, 16, 32, 64, 128', 'min_width_pps': '5, 3, 3'}
LISTS = {'domain': '-10000, 10000; None; None',
         'distance': 'None; None; -10000, 10000',
         'stretching': 'None; None; 1.05, 1.5',
         'min_width_limits': '10, 100; None; 50'}
CSV = {'sources': 'TxED-02, TxMD-08', 'receivers': 'RxEP-01, RxMP-10',
       'frequencies': 'f-1, f-3'}


class Opt(str):
    """Raw option text; float(opt) -> its symbolic real (shadowed float)."""
    sym = None


class CfgModel:
    """configparser.ConfigParser with symbolic typed getters."""

    def __init__(self, content, rec, *a, **k):
        self.c = {s: dict(v) for s, v in content.items()}
        self.rec = rec

    def read_file(self, f):
        pass

    def sections(self):
        return list(self.c)

    def add_section(self, s):
        self.c.setdefault(s, {})

    def items(self, s):
        return [(k, v) for k, v in self.c[s].items()]

    def has_option(self, s, k):
        return s in self.c and k in self.c[s]

    def __getitem__(self, s):
        return self.c[s]

    _UNSET = object()

    def _absent(self, s, k, fallback):
        """configparser's contract for a missing option."""
        if self.has_option(s, k):
            return False
        if fallback is CfgModel._UNSET:
            raise KeyError(k)
        return True

    def get(self, s, k, *, raw=False, vars=None, fallback=_UNSET):
        if self._absent(s, k, fallback):
            return fallback
        return self.c[s][k]

    def getint(self, s, k, *, raw=False, vars=None, fallback=_UNSET):
        if self._absent(s, k, fallback):
            return fallback
        v = Z.var(f"int[{s}.{k}]")
        self.rec[(s, k)] = v
        return v

    def getfloat(self, s, k, *, raw=False, vars=None, fallback=_UNSET):
        if self._absent(s, k, fallback):
            return fallback
        v = Q.var(f"float[{s}.{k}]")
        self.rec[(s, k)] = v
        return v

    def getboolean(self, s, k, *, raw=False, vars=None, fallback=_UNSET):
        if self._absent(s, k, fallback):
            return fallback
        v = bool(B(z3.Bool(f"bool[{s}.{k}]")))      # forks
        self.rec[(s, k)] = v
        return v


def _mk_value(sec, key, rec):
    if key in LIST:
        return Opt(LIST[key])
    if key in LISTS:
        return Opt(LISTS[key])
    if key in CSV:
        return Opt(CSV[key])
    if key in FLOAT:
        o = Opt('1.5')
        o.sym = Q.var(f"float[{sec}.{key}]")
        return o
    return Opt(f"<{key}>")          # opaque string token (pass-through)


def run_parser(E, content, term_overrides=None, function='forward'):
    """parse_config_file on a modelled configuration; returns (out, term,
    rec) or ('raise', exc)."""
    P = E.cli.parser
    rec = {}
    saved = (P.configparser, getattr(P, 'float', None),
             getattr(P, 'int', None), getattr(P, 'min', None),
             getattr(P, 'max', None))

    class CP:
        @staticmethod
        def ConfigParser(*a, **k):
            return CfgModel(content, rec)
    P.configparser = CP

    def sfloat(x):
        if isinstance(x, Opt) and x.sym is not None:
            rec[id(x)] = x.sym
            return x.sym
        return float(x)

    def sint(x):
        return x if isinstance(x, Z) else int(x)

    def smin(*a):
        if any(isinstance(v, Z) for v in a):
            x, y = a
            return x if bool(Z._co(x) < Z._co(y)) else y
        return min(*a)

    def smax(*a):
        if any(isinstance(v, Z) for v in a):
            x, y = a
            return x if bool(Z._co(x) > Z._co(y)) else y
        return max(*a)
    P.float, P.int, P.min, P.max = sfloat, sint, smin, smax
    args = dict(config='.', verbosity=0, nproc=None, dry_run=False,
                clean=False, layered=None, forward=function == 'forward',
                misfit=function == 'misfit', gradient=function == 'gradient',
                path=None, survey=None, model=None, output=None, save=None,
                load=None, cache=None)
    args.update(term_overrides or {})
    try:
        with warnings.catch_warnings():
            warnings.simplefilter('ignore')
            out, term = P.parse_config_file(args)
        return out, term, rec
    except (TypeError, ValueError, KeyError) as e:
        return 'raise', e, rec
    finally:
        P.configparser = saved[0]
        for nm, val in zip(('float', 'int', 'min', 'max'), saved[1:]):
            if val is None:
                try:
                    delattr(P, nm)
                except AttributeError:
                    pass
            else:
                setattr(P, nm, val)


def _where(out, sec, key):
    """The place from which run.py hands the option to the API."""
    so = out['simulation_options']
    try:
        if sec == 'files':
            return out['files'][key] if key != 'path' else None
        if sec == 'simulation':
            return so[key]
        if sec == 'solver_opts':
            return so['solver_opts'][key]
        if sec == 'gridding_opts':
            return so['gridding_opts'][key]
        if sec == 'noise_opts':
            return out['noise_kwargs'][key]
        if sec == 'data':
            return out['data'][key]
        if sec == 'layered':
            lo = so['layered_opts']
            return lo[key] if key in ('method', 'merge') else \
                lo['ellipse'][key]
    except KeyError:
        return KeyError
    return KeyError


def _expect(sec, key, value, rec):
    if key in LIST:
        return [float(v) for v in LIST[key].split(',')]
    if key in LISTS:
        parts = []
        for p in LISTS[key].split(';'):
            parts.append(None if 'none' in p.lower() else
                         [float(v) for v in p.split(',')])
        return dict(x=parts[0], y=parts[1], z=parts[2])
    if key in CSV:
        return [v.strip() for v in CSV[key].split(',')]
    if key in FLOAT:
        return value.sym if value.sym is not None else rec.get((sec, key))
    if key in INT or key in BOOL:
        return rec.get((sec, key))
    return str(value)


def _same(c, got, want):
    if isinstance(want, (Q, Z)) or isinstance(got, (Q, Z)):
        if not isinstance(got, (Q, Z)) or not isinstance(want, (Q, Z)):
            return False
        return got.t.eq(want.t) or c.valid(got.t == want.t)[0] == 'held'
    if isinstance(want, str):
        return isinstance(got, str) and str(got) == want
    return type(got) is type(want) and got == want


def case_key(case):
    """One documented key present (with a symbolic value of its type)."""
    sec, key, kind = case
    E = shadow.load()
    c = set_ctx(Ctx(timeout_ms=30000))
    State.OBJECT_ALLOC = True
    grp = f"[{sec}] {key}"
    obs = []
    res = dict(paths=0)
    bad = None

    def run():
        content = {sec: {}}
        val = _mk_value(sec, key, {})
        content[sec][key] = val
        return run_parser(E, content), val
    try:
        for (r, val), pc, tr in c.explore(run, budget_s=120):
            res['paths'] += 1
            c.pc = pc
            if r[0] == 'raise':
                bad = f"documented option rejected by the parser: {r[1]!r}"
                break
            out, term, rec = r
            if sec == 'files':
                if key == 'path':
                    ok = all(str(v).startswith(os.path.abspath(str(val)))
                             for k_, v in out['files'].items()
                             if k_ in ('survey', 'model', 'output'))
                elif key == 'cache':
                    ok = str(val) in str(out['files']['load']) and \
                        str(val) in str(out['files']['save'])
                else:
                    ok = str(val) in str(out['files'].get(key))
                if not ok:
                    bad = "file option does not arrive in the files dict"
                continue
            got = _where(out, sec, key)
            want = _expect(sec, key, val, rec)
            if got is KeyError:
                bad = "option accepted but not routed to the API's input"
            elif not _same(c, got, want):
                bad = (f"routed value {got!r} is not the configured value "
                       f"{want!r} (type {type(want).__name__})")
            if bad:
                break
    except Inconclusive as e:
        return [ob("exploration", 'unknown', group=grp, note=str(e))]
    obs.append(ob(f"documented as '{kind or 'value'}': accepted, routed to "
                  f"the API input unchanged ({res['paths']} paths)",
                  'cex' if bad else 'held', group=grp, cls='LIN',
                  note=bad or '',
                  key=f"CLI option [{sec}] {key}: {bad}" if bad else None,
                  cex=dict(kind='key', sec=sec, key=key, why=bad)
                  if bad else None))
    return obs


def case_unknown(sec):
    E = shadow.load()
    set_ctx(Ctx(timeout_ms=30000))
    State.OBJECT_ALLOC = True
    grp = f"[{sec}] undocumented key"
    r = run_parser(E, {sec: {'not_an_option': Opt('1')}})
    ok = r[0] == 'raise' and isinstance(r[1], TypeError)
    return [ob("an undocumented key is rejected with an error",
               'held' if ok else 'cex', group=grp, cls='concrete',
               nontrivial=False,
               key=f"CLI: unknown option in [{sec}] is accepted silently",
               cex=dict(kind='unknown', sec=sec) if not ok else None)]


def case_precedence(part):
    """Terminal arguments (symbolic-or-absent) > configuration > default.
    part 'options': nproc, layered, path; part 'files': the five names."""
    E = shadow.load()
    c = set_ctx(Ctx(timeout_ms=30000))
    State.OBJECT_ALLOC = True
    grp = f"precedence terminal > configuration file > default ({part})"
    bad = None
    n = 0
    opt, fil = part == 'options', part == 'files'

    def choice(name):
        return bool(B(z3.Bool(name)))

    def run():
        tn = Z.var('term_nproc') if opt and choice('has_nproc') else None
        tl = choice('term_layered') if opt and choice('has_layered') \
            else None
        cfg_w = opt and choice('cfg_has_workers')
        cfg_l = opt and choice('cfg_has_layered')
        tpath = '/T_path' if opt and choice('term_path') else None
        cpath = '/C_path' if opt and choice('cfg_path') else None
        names = {}
        for k in ('survey', 'model', 'output', 'save', 'load'):
            names[k] = (f"T_{k}" if fil and choice(f"term_{k}") else None,
                        f"C_{k}" if fil and choice(f"cfg_{k}") else None)
        content = {'simulation': {}, 'files': {}}
        if cfg_w:
            content['simulation']['max_workers'] = Opt('3')
        if cfg_l:
            content['simulation']['layered'] = Opt('True')
        for k, (t_, c_) in names.items():
            if c_:
                content['files'][k] = Opt(c_)
        if cpath:
            content['files']['path'] = Opt(cpath)
        over = dict(nproc=tn, layered=tl, path=tpath)
        over.update({k: t_ for k, (t_, c_) in names.items()})
        names['path'] = (tpath, cpath)
        return run_parser(E, content, over), tn, tl, cfg_w, cfg_l, names
    try:
        for (r, tn, tl, cfg_w, cfg_l, names), pc, tr in c.explore(
                run, budget_s=900):
            n += 1
            c.pc = pc
            if r[0] == 'raise':
                bad = f"parser raised {r[1]!r}"
                break
            out, term, rec = r
            so = out['simulation_options']
            if tn is not None:
                # terminal value, clipped to >= 1
                w = so.get('max_workers')
                if w is None or c.valid(z3.If(
                        tn.t >= 1, Z._co(w).t == tn.t,
                        Z._co(w).t == 1))[0] != 'held':
                    bad = "max_workers is not the terminal value"
            elif cfg_w:
                if so.get('max_workers') is not rec.get(
                        ('simulation', 'max_workers')):
                    bad = "max_workers is not the configured value"
            elif 'max_workers' in so:
                bad = "max_workers set although not given"
            if tl is not None:
                if so.get('layered') is not tl:
                    bad = "layered is not the terminal value"
            elif cfg_l:
                if so.get('layered') is not rec.get(('simulation',
                                                     'layered')):
                    bad = "layered is not the configured value"
            defaults = dict(survey='survey', model='model',
                            output='emg3d_out', save=None, load=None)
            tpath, cpath = names.pop('path')
            wantp = os.path.abspath(tpath or cpath or '.')
            if os.path.dirname(str(out['files']['survey'])) != wantp:
                bad = (f"path: files are looked for in "
                       f"{os.path.dirname(str(out['files']['survey']))}, "
                       f"terminal={tpath!r}, configuration={cpath!r}")
            for k, (t_, c_) in names.items():
                want = t_ or c_ or defaults[k]
                got = out['files'][k]
                if want is None:
                    if got:
                        bad = f"files[{k}] set although not given"
                elif os.path.basename(str(got)).split('.')[0] != want:
                    bad = (f"files[{k}] = {got!r} but terminal={t_!r}, "
                           f"configuration={c_!r}")
            if bad:
                break
    except Inconclusive as e:
        return [ob("exploration", 'unknown', group=grp, note=str(e))]
    return [ob(f"{n} combinations of present/absent terminal and "
               f"configuration values (nproc symbolic, clipped at 1; "
               f"layered; five file names)", 'cex' if bad else 'held',
               group=grp, cls='LIN', note=bad or '',
               key=f"CLI precedence: {bad}" if bad else None,
               cex=dict(kind='precedence', why=bad) if bad else None),
            ob("twin: many combinations", 'twin_sat' if n >= 32 or bad
               else 'twin_unsat', group=grp, cls='LIN', nontrivial=False)]


# --------------------------------------------------------------------------
# (4) acceptance further down, (5) run.py hands the dictionaries over
# --------------------------------------------------------------------------
def _mini(emg3d):
    grid = emg3d.TensorMesh([np.ones(8)*100]*3, (-400, -400, -400))
    model = emg3d.Model(grid, 1.0)
    src = [emg3d.TxElectricDipole((0, 0, 0, 0, 0)),
           emg3d.TxElectricDipole((50, 0, 0, 0, 0))]
    rec = [emg3d.RxElectricPoint((100, 50, 0, 0, 0)),
           emg3d.RxElectricPoint((150, 0, 50, 0, 0))]
    survey = emg3d.Survey(src, rec, [1.0, 2.0], data=np.ones((2, 2, 2))+0j,
                          noise_floor=1e-15, relative_error=0.05)
    return grid, model, survey


def accept_downstream(sec, key, value, emg3d):
    """Call the API function that receives the routed option with exactly
    that option (concrete representative value); returns None if accepted,
    else the message."""
    grid, model, survey = _mini(emg3d)
    kw = dict(gridding='same', max_workers=1, verb=-1, tqdm_opts=False)
    try:
        if sec == 'simulation':
            if key == 'gridding':
                value = 'same'
            if key == 'receiver_interpolation':
                value = 'linear'
            if key == 'file_dir':
                return None                 # creates a directory: skipped
            k2 = dict(kw)
            k2[key] = value
            emg3d.Simulation(survey, model, **k2)
        elif sec == 'solver_opts':
            real = (emg3d.solver.multigrid, emg3d.solver.krylov)

            def fake(vmodel, sfield, efield, var, **k):
                var.exit_message = 'CONVERGED'
                var.l2 = 0.0
            emg3d.solver.multigrid = emg3d.solver.krylov = fake
            try:
                if key == 'tol_gradient':
                    emg3d.Simulation(survey, model, solver_opts={key: value},
                                     **kw)
                else:
                    sf = emg3d.get_source_field(grid, (0, 0, 0, 0, 0), 1.0)
                    emg3d.solve(model, sf, **{key: value})
            finally:
                emg3d.solver.multigrid, emg3d.solver.krylov = real
        elif sec == 'gridding_opts':
            k2 = dict(kw, gridding='single',
                      gridding_opts={'center': (0, 0, 0), key: value}
                      if key != 'center' else {key: value})
            emg3d.Simulation(survey, model, **k2)
        elif sec == 'noise_opts':
            if key == 'add_noise':
                return None         # consumed by Simulation.compute itself
            survey.add_noise(**{key: value})
        elif sec == 'data':
            names = dict(sources=list(survey.sources)[:1],
                         receivers=list(survey.receivers)[:1],
                         frequencies=list(survey.frequencies)[:1],
                         remove_empty=False)
            survey.select(**{key: names[key]})
        elif sec == 'layered':
            lo = {key: value} if key in ('method', 'merge') else \
                {'method': 'cylinder', 'ellipse': {'radius': 500.,
                                                   key: value}}
            sim = emg3d.Simulation(survey, model, layered=True,
                                   layered_opts=lo, **kw)
            m_ = sim.layered_opts.get('method', 'cylinder')
            model.extract_1d(method=m_, p0=(0, 0), p1=(100, 50), **{
                k_: v for k_, v in sim.layered_opts.items()
                if k_ != 'method'})
    except (TypeError, KeyError, AttributeError) as e:
        return f"{type(e).__name__}: {e}"[:200]
    except Exception:     # noqa  (value-dependent errors are not the point)
        return None
    return None


REPR = dict(bool=True, int=2, float=1.5)


def _concrete_value(sec, key, parsed):
    if isinstance(parsed, Z):
        return {'verb': 1, 'clevel': 1}.get(key, 2)
    if isinstance(parsed, Q):
        return {'tol': 1e-4, 'tol_gradient': 1e-3, 'frequency': 1.0,
                'seasurface': 1000.0, 'max_buffer': 50000.0, 'minor': 0.8,
                'factor': 1.2, 'radius': 500.0}.get(key, 0.0)
    if isinstance(parsed, str) and parsed.startswith('<'):
        return dict(cycle='V', ntype='white_noise', method='cylinder',
                    mapping='Resistivity', vector='xy', name='n',
                    gridding='same', receiver_interpolation='linear',
                    file_dir=None).get(key, parsed)
    return parsed


def routed_calls(sec, key, text, function='forward'):
    """What the REAL cli.run.simulation passes to the API for a real
    configuration file holding exactly this option: {'Simulation': kwargs,
    'select': kwargs, 'compute': kwargs} (file system, logger and the
    Simulation class are recording stubs)."""
    import tempfile
    import shutil
    from emg3d.cli import run as R
    calls = {}

    class FakeSurvey:
        shape = (1, 1, 1)
        count = 1

        def select(self, **kw):
            calls['select'] = kw
            return self

    class FakeData:
        observed = synthetic = 0

    class FakeSim:
        def __init__(self, **kw):
            calls['Simulation'] = kw
            self.survey = kw['survey']
            self.data = FakeData()
            self.misfit = self.gradient = 0
            self.layered = False

        def compute(self, **kw):
            calls['compute'] = kw

        def print_grid_info(self, **kw):
            return ''

        def print_solver_info(self, *a, **kw):
            return ''

        def to_file(self, *a, **kw):
            return 'a\nb'

    class Log:
        def info(self, *a):
            pass
        debug = info
    tmp = tempfile.mkdtemp(prefix='c18d_')
    saved = (R.check_files, R.initiate_logger, R.io.load, R.io.save,
             R.simulations.Simulation)
    R.check_files = lambda *a: None
    R.initiate_logger = lambda *a: Log()
    R.io.load = lambda f, **k: ({'survey': FakeSurvey(), 'model': 'M'},
                                'i\nj')
    R.io.save = lambda f, **k: 'x\ny'
    R.simulations.Simulation = FakeSim
    try:
        fn = os.path.join(tmp, 'emg3d.cfg')
        with open(fn, 'w') as f:
            f.write(f"[{sec}]\n{key}={text}\n")
        args = dict(config=fn, verbosity=0, nproc=None, dry_run=False,
                    clean=False, layered=None, forward=function == 'forward',
                    misfit=function == 'misfit', gradient=False, path=tmp,
                    survey=None, model=None, output=None, save=None,
                    load=None, cache=None)
        with warnings.catch_warnings():
            warnings.simplefilter('ignore')
            R.simulation(args)
    finally:
        (R.check_files, R.initiate_logger, R.io.load, R.io.save,
         R.simulations.Simulation) = saved
        shutil.rmtree(tmp, ignore_errors=True)
    return calls


def _text_for(key):
    return (LIST.get(key) or LISTS.get(key) or CSV.get(key) or
            ('True' if key in BOOL else '2' if key in INT else
             '1.5' if key in FLOAT else dict(
                 cycle='V', ntype='white_noise', method='cylinder',
                 mapping='Resistivity', vector='xy', name='n',
                 gridding='single', receiver_interpolation='linear',
                 file_dir='none').get(key, 'x')))


def accept_routed(sec, key, emg3d):
    """Offer what run.py really passes (for a configuration holding exactly
    this option) to the real API functions."""
    try:
        calls = routed_calls(sec, key, _text_for(key))
    except Exception as e:      # noqa
        return f"cli.run.simulation raised {e!r}"[:200]
    simkw = {k: v for k, v in calls.get('Simulation', {}).items()
             if k not in ('survey', 'model', 'verb')}
    grid, model, survey = _mini(emg3d)
    base = dict(gridding='same', max_workers=1, verb=-1, tqdm_opts=False)
    try:
        if sec in ('simulation', 'layered', 'gridding_opts'):
            kw = dict(base)
            kw.update(simkw)
            kw.pop('name', None)
            if 'gridding_opts' in kw:
                kw['gridding'] = 'single'
                kw['gridding_opts'].setdefault('center', (0, 0, 0))
            if key == 'file_dir':
                return None
            if sec == 'layered':
                kw['layered'] = True
                kw.setdefault('layered_opts', {})
                if 'ellipse' in kw['layered_opts']:
                    kw['layered_opts']['ellipse'].setdefault('radius', 500.)
            sim = emg3d.Simulation(survey, model, **kw)
            if sec == 'layered':
                lo = dict(sim.layered_opts)
                m_ = lo.pop('method', 'cylinder')
                model.extract_1d(method=m_, p0=(0, 0), p1=(100, 50), **lo)
        elif sec == 'solver_opts':
            so = simkw.get('solver_opts', {})
            real = (emg3d.solver.multigrid, emg3d.solver.krylov)

            def fake(vmodel, sfield, efield, var, **k):
                var.exit_message = 'CONVERGED'
                var.l2 = 0.0
            emg3d.solver.multigrid = emg3d.solver.krylov = fake
            try:
                sim = emg3d.Simulation(survey, model, solver_opts=so, **base)
                so2 = {k: v for k, v in sim.solver_opts.items()
                       if k != 'return_info'}
                sf = emg3d.get_source_field(grid, (0, 0, 0, 0, 0), 1.0)
                emg3d.solve(model, sf, **so2)
            finally:
                emg3d.solver.multigrid, emg3d.solver.krylov = real
        elif sec == 'noise_opts':
            kw = dict(calls.get('compute', {}))
            kw.pop('observed', None)
            kw.pop('add_noise', None)      # consumed by Simulation.compute
            survey.add_noise(**kw)
        elif sec == 'data':
            kw = dict(calls.get('select', {}))
            names = dict(sources=list(survey.sources)[:1],
                         receivers=list(survey.receivers)[:1],
                         frequencies=list(survey.frequencies)[:1])
            for k_ in names:
                if kw.get(k_):
                    kw[k_] = names[k_]
            survey.select(**kw)
    except (TypeError, KeyError, AttributeError) as e:
        return f"{type(e).__name__}: {e}"[:200]
    except Exception:     # noqa  (value-dependent errors are not the point)
        return None
    return None


def case_downstream(case):
    """(4): what run.py passes on for this option is accepted by the API
    that receives it (real parser, real run.py with recording stubs, real
    API)."""
    sec, key, kind = case
    import emg3d
    warnings.filterwarnings('ignore')
    grp = f"[{sec}] {key}"
    msg = accept_routed(sec, key, emg3d)
    return [ob(f"the keyword(s) run.py passes on for this option are "
               f"accepted by the API function that receives them "
               f"(representative value {_text_for(key)!r})",
               'cex' if msg else 'held', group=grp, cls='concrete',
               nontrivial=False, note=msg or '',
               key=f"CLI option [{sec}] {key} is not accepted by the API "
                   f"that receives it" if msg else None,
               cex=dict(kind='downstream', sec=sec, key=key, why=msg)
               if msg else None)]


def case_run(case):
    """(5): cli.run.simulation hands the parsed dictionaries verbatim to
    Simulation(...), survey.select(...), compute(observed=True, **noise)."""
    function, datasel = case
    E = shadow.load()
    c = set_ctx(Ctx(timeout_ms=30000))
    State.OBJECT_ALLOC = True
    R = E.cli.run
    grp = f"run.simulation function={function} [data]={datasel}"
    calls = []

    class FakeSurvey:
        shape = (1, 1, 1)
        count = 1

        def select(self, **kw):
            calls.append(('select', kw))
            return self

    class FakeData:
        observed = 'OBS'
        synthetic = 'SYN'

    class FakeSim:
        def __init__(self, **kw):
            calls.append(('Simulation', kw))
            self.survey = kw['survey']
            self.data = FakeData()
            self.misfit = 'MISFIT'
            self.gradient = 'GRAD'
            self.layered = False

        def compute(self, **kw):
            calls.append(('compute', kw))

        def print_grid_info(self, **kw):
            return ''

        def print_solver_info(self, *a, **kw):
            return ''

        def to_file(self, *a, **kw):
            calls.append(('to_file', a))
            return 'a\nb'
    saved = dict(parse=R.parser.parse_config_file, check=R.check_files,
                 logger=R.initiate_logger, load=R.io.load, save=R.io.save,
                 Sim=R.simulations.Simulation)
    cfg = {'files': {'survey': 'S', 'model': 'M', 'output': 'O',
                     'save': 'SAVE', 'load': False, 'log': 'L'},
           'simulation_options': {'name': 'n', 'max_workers': 3,
                                  'solver_opts': {'tol': 1e-4},
                                  'gridding_opts': {'center': [0, 0, 0]}},
           'data': dict(datasel),
           'noise_kwargs': {'min_offset': 5.0, 'add_noise': False}}
    term = dict(function=function, verbosity=0, dry_run=False, clean=False,
                config_file='.')
    outs = {}

    class Log:
        def info(self, *a):
            pass
        debug = info
    R.parser.parse_config_file = lambda a: (cfg, term)
    R.check_files = lambda *a: None
    R.initiate_logger = lambda *a: Log()
    R.io.load = lambda f, **k: ({'survey': FakeSurvey(), 'model': 'MODEL'},
                                'i\nj')
    R.io.save = lambda f, **k: (outs.update(k) or 'x\ny')
    R.simulations.Simulation = FakeSim
    try:
        R.simulation({})
    finally:
        R.parser.parse_config_file = saved['parse']
        R.check_files = saved['check']
        R.initiate_logger = saved['logger']
        R.io.load, R.io.save = saved['load'], saved['save']
        R.simulations.Simulation = saved['Sim']
    bad = None
    d = dict(calls)
    simkw = dict(d.get('Simulation', {}))
    want = dict(cfg['simulation_options'])
    for k_ in ('survey', 'model', 'verb', 'tqdm_opts'):
        simkw.pop(k_, None)
    want.pop('tqdm_opts', None)      # added by run.py itself for verb < 1
    if simkw != want:
        bad = f"Simulation(...) receives {simkw}, configured {want}"
    sel = d.get('select')
    wants = dict(sources=datasel.get('sources'),
                 receivers=datasel.get('receivers'),
                 frequencies=datasel.get('frequencies'),
                 remove_empty=datasel.get('remove_empty', False))
    if datasel and sel != wants:
        bad = bad or (f"survey.select receives {sel} for [data] = "
                      f"{datasel}")
    if not datasel and sel is not None:
        bad = bad or "survey.select called without a [data] section"
    comp = d.get('compute')
    wantc = dict(observed=True, **cfg['noise_kwargs']) \
        if function == 'forward' else {}
    if comp != wantc:
        bad = bad or f"compute receives {comp}, expected {wantc}"
    wanto = {'forward': 'OBS'}.get(function, 'SYN')
    if outs.get('data') != wanto or (function != 'forward' and outs.get(
            'misfit') != 'MISFIT') or (function == 'gradient' and outs.get(
                'gradient') != 'GRAD'):
        bad = bad or f"output file receives {sorted(outs)}"
    return [ob("the parsed dictionaries are handed verbatim to "
               "Simulation(...), survey.select(...), compute(...); outputs "
               "are data / misfit / gradient of the simulation",
               'cex' if bad else 'held', group=grp, cls='concrete',
               nontrivial=False, note=bad or '',
               key=f"cli.run: {bad}" if bad else None,
               cex=dict(kind='run', function=function, why=bad)
               if bad else None)]


def _main_args(argv):
    """The dictionary the REAL cli.main.main hands to run.simulation for the
    given command line (argparse runs for real)."""
    import sys
    import importlib
    Mn = importlib.import_module('emg3d.cli.main')
    got = {}
    saved, sargv = Mn.run.simulation, sys.argv
    Mn.run.simulation = lambda d: got.update(d)
    sys.argv = ['emg3d']+list(argv)
    try:
        Mn.main(list(argv))
    finally:
        Mn.run.simulation, sys.argv = saved, sargv
    return got


def case_main(_):
    """Command line -> main() (real argparse) -> parser: an option NOT given
    on the command line must not override the configuration file; one given
    must."""
    E = shadow.load()
    set_ctx(Ctx(timeout_ms=30000))
    State.OBJECT_ALLOC = True
    grp = "command line -> main() -> parse_config_file"
    content = {'simulation': {'max_workers': Opt('3'),
                              'layered': Opt('True')},
               'files': {'survey': Opt('C_survey'), 'model': Opt('C_model'),
                         'output': Opt('C_out'), 'save': Opt('C_save')}}
    bad = None

    def parse(argv):
        a = _main_args(['.']+argv)
        if not a:
            return None
        a = dict(a)
        a['config'] = '.'
        P = E.cli.parser
        saved = P.configparser

        class CP:
            @staticmethod
            def ConfigParser(*x, **k):
                m = CfgModel(content, {})
                m.getint = lambda s_, k_: int(content[s_][k_])
                m.getboolean = lambda s_, k_: content[s_][k_] == 'True'
                return m
        P.configparser = CP
        try:
            with warnings.catch_warnings():
                warnings.simplefilter('ignore')
                return P.parse_config_file(a)
        finally:
            P.configparser = saved
    try:
        out, term = parse([])
        so, fl = out['simulation_options'], out['files']
        if so.get('max_workers') != 3 or so.get('layered') is not True:
            bad = (f"without -n/-l the configured max_workers/layered are "
                   f"overridden: {so.get('max_workers')}, "
                   f"{so.get('layered')}")
        for k_, w in (('survey', 'C_survey'), ('model', 'C_model'),
                      ('output', 'C_out'), ('save', 'C_save')):
            if w not in str(fl.get(k_)):
                bad = bad or f"without --{k_} the configured file is lost"
        if term['function'] != 'forward' or term['dry_run'] or \
                term['clean']:
            bad = bad or "defaults of function/dry-run/clean changed"
        out, term = parse(['-n', '7', '-l', '--survey', 'T_s', '--model',
                           'T_m', '--output', 'T_o', '--save', 'T_sv',
                           '-m', '-d'])
        so, fl = out['simulation_options'], out['files']
        if so.get('max_workers') != 7 or so.get('layered') is not True:
            bad = bad or "terminal -n/-l do not arrive"
        for k_, w in (('survey', 'T_s'), ('model', 'T_m'),
                      ('output', 'T_o'), ('save', 'T_sv')):
            if w not in str(fl.get(k_)):
                bad = bad or f"terminal --{k_} does not override the file"
        if term['function'] != 'misfit' or not term['dry_run']:
            bad = bad or "-m / -d do not arrive"
    except Exception as e:      # noqa
        bad = f"raised {e!r}"[:200]
    return [ob("options not given on the command line leave the configured "
               "values in force; given ones override them (real argparse)",
               'cex' if bad else 'held', group=grp, cls='concrete',
               nontrivial=False, note=bad or '',
               key=f"CLI main(): {bad}" if bad else None,
               cex=dict(kind='main', why=bad) if bad else None)]


def case_run_load(case):
    """cli.run.simulation, --load with --clean: the loaded simulation is
    cleaned of everything computed, gets the new model, then computes."""
    function, with_gopts = case
    E = shadow.load()
    set_ctx(Ctx(timeout_ms=30000))
    State.OBJECT_ALLOC = True
    R = E.cli.run
    grp = (f"run.simulation --load --clean function={function} "
           f"{'with' if with_gopts else 'without'} [gridding_opts]")
    events = []

    class FakeData:
        observed = 'OBS'
        synthetic = 'SYN'

    class FakeSurvey:
        shape = (1, 1, 1)
        count = 1

    class FakeSim:
        layered = False
        survey = FakeSurvey()
        data = FakeData()

        @property
        def misfit(self):
            events.append('misfit')
            return 'MISFIT'

        @property
        def gradient(self):
            events.append('gradient')
            return 'GRAD'

        @classmethod
        def from_file(cls, fname, **kw):
            events.append(('from_file', os.path.basename(fname)))
            return cls(), 'i\nj'

        def clean(self, what):
            events.append(('clean', what))

        def __setattr__(self, k, v):
            events.append(('set', k, v))
            object.__setattr__(self, k, v)

        def compute(self, **kw):
            events.append(('compute', kw))

        def print_grid_info(self, **kw):
            return ''

        def print_solver_info(self, *a, **kw):
            return ''

        def to_file(self, *a, **kw):
            events.append(('to_file', os.path.basename(a[0])))
            return 'a\nb'

    class Log:
        def info(self, *a):
            pass
        debug = info
    cfg = {'files': {'survey': 'S', 'model': 'M.h5', 'output': 'O',
                     'save': 'SIM.h5', 'load': 'SIM.h5', 'log': 'L'},
           'simulation_options': {'layered': False},
           'data': {}, 'noise_kwargs': {}}
    if with_gopts:
        cfg['simulation_options']['gridding_opts'] = {'center': [0, 0, 0]}
    term = dict(function=function, verbosity=0, dry_run=False, clean=True,
                config_file='.')
    saved = (R.parser.parse_config_file, R.check_files, R.initiate_logger,
             R.io.load, R.io.save, R.simulations.Simulation)
    R.parser.parse_config_file = lambda a: (cfg, term)
    R.check_files = lambda *a: None
    R.initiate_logger = lambda *a: Log()
    R.io.load = lambda f, **k: ({'model': 'NEWMODEL'}, 'i\nj')
    R.io.save = lambda f, **k: 'x\ny'
    R.simulations.Simulation = FakeSim
    bad = None
    try:
        R.simulation({})
    except Exception as e:      # noqa
        bad = f"raised {e!r}"[:200]
    finally:
        (R.parser.parse_config_file, R.check_files, R.initiate_logger,
         R.io.load, R.io.save, R.simulations.Simulation) = saved
    if bad:
        pass
    elif ('clean', 'computed') not in events:
        bad = (f"the loaded simulation is not cleaned of its computed "
               f"results: {[e for e in events if e[0] == 'clean']}")
    elif ('set', 'model', 'NEWMODEL') not in events:
        bad = "the new model is not set"
    else:
        i_clean = events.index(('clean', 'computed'))
        i_comp = [i for i, e in enumerate(events) if e[0] == 'compute']
        if not i_comp or i_comp[0] < i_clean:
            bad = "compute() does not follow the clean"
    if function != 'forward' and 'misfit' not in events:
        bad = bad or "misfit not evaluated on the cleaned simulation"
    return [ob("--load --clean: clean('computed'), new model set, then "
               "compute (and misfit/gradient) on the cleaned simulation, "
               "simulation saved again", 'cex' if bad else 'held', group=grp,
               cls='concrete', nontrivial=False, note=bad or '',
               key=f"cli.run --load --clean: {bad}" if bad else None,
               cex=dict(kind='runload', function=function,
                        with_gopts=with_gopts, why=bad) if bad else None)]


# --------------------------------------------------------------------------
def replay(cex):
    """Real package, real configparser, real files."""
    import emg3d
    import tempfile
    import shutil
    from emg3d.cli import parser as P
    warnings.filterwarnings('ignore')
    kind = cex['kind']
    tmp = tempfile.mkdtemp(prefix='c18_')

    def parse(text, **over):
        fn = os.path.join(tmp, 'emg3d.cfg')
        with open(fn, 'w') as f:
            f.write(text)
        args = dict(config=fn, verbosity=0, nproc=None, dry_run=False,
                    clean=False, layered=None, forward=True, misfit=False,
                    gradient=False, path=None, survey=None, model=None,
                    output=None, save=None, load=None, cache=None)
        args.update(over)
        return P.parse_config_file(args)
    try:
        if kind == 'unknown':
            try:
                parse(f"[{cex['sec']}]\nnot_an_option=1\n")
            except TypeError:
                return False, "rejected with TypeError"
            return True, (f"real parser accepts an unknown option in "
                          f"[{cex['sec']}]")
        if kind in ('key', 'downstream'):
            sec, key = cex['sec'], cex['key']
            text = (LIST.get(key) or LISTS.get(key) or CSV.get(key) or
                    ('True' if key in BOOL else '2' if key in INT else
                     '1.5' if key in FLOAT else dict(
                         cycle='V', ntype='white_noise', method='cylinder',
                         mapping='Resistivity', vector='xy', name='n',
                         gridding='single', receiver_interpolation='linear'
                     ).get(key, 'x')))
            try:
                out, term = parse(f"[{sec}]\n{key}={text}\n")
            except Exception as e:      # noqa
                return True, (f"real parser rejects the documented option "
                              f"[{sec}] {key}={text}: {e!r}"[:250])
            got = _where(out, sec, key)
            if sec != 'files' and got is KeyError:
                return True, (f"real parser accepts [{sec}] {key} but does "
                              f"not route it")
            if key in INT or key in FLOAT:
                # the legitimate value 0 must arrive as well
                try:
                    out0, _ = parse(f"[{sec}]\n{key}=0\n")
                    g0 = _where(out0, sec, key)
                except Exception as e:      # noqa
                    return True, f"[{sec}] {key}=0 rejected: {e!r}"[:200]
                if g0 is KeyError or g0 != 0:
                    return True, (f"real parser drops / changes [{sec}] "
                                  f"{key}=0 (routed: "
                                  f"{'nothing' if g0 is KeyError else g0})")
            if kind == 'downstream':
                msg = accept_routed(sec, key, emg3d)
                return bool(msg), (f"real cli.run + API for the option "
                                   f"[{sec}] {key}={text}: " +
                                   (msg or 'accepted'))
            return False, f"real parser routes [{sec}] {key} -> {got!r}"
        if kind == 'precedence':
            try:
                out, term = parse("[simulation]\nmax_workers=3\n[files]\n"
                                  "survey=C_survey\nmodel=C_model\n",
                                  nproc=7, survey='T_s')
                bad = out['simulation_options'].get('max_workers') != 7 or \
                    'T_s' not in out['files']['survey'] or \
                    'C_model' not in out['files']['model']
                out2, _ = parse("[simulation]\nmax_workers=3\n")
                bad = bad or out2['simulation_options'].get(
                    'max_workers') != 3
                out3, _ = parse("[files]\npath=/C_path\n", path='/T_path')
                bad = bad or os.path.dirname(
                    out3['files']['survey']) != '/T_path'
                out4, _ = parse("[files]\npath=/C_path\n")
                bad = bad or os.path.dirname(
                    out4['files']['survey']) != '/C_path'
            except Exception as e:      # noqa
                return True, (f"real parser with an option given both in "
                              f"the file and on the command line: {e!r}"
                              )[:250]
            return bad, "real parser precedence terminal > file: " + (
                'violated' if bad else 'ok')
        if kind == 'run':
            return True, 'structural (recording stubs): '+str(cex['why'])
        if kind == 'runload':
            return _replay_runload(cex, tmp)
        if kind == 'main':
            fn = os.path.join(tmp, 'emg3d.cfg')
            with open(fn, 'w') as f:
                f.write("[simulation]\nmax_workers=3\nlayered=True\n"
                        "[files]\nsurvey=C_survey\nsave=C_save\n")
            msgs = []
            try:
                a = dict(_main_args([fn]))
                out, term = P.parse_config_file(a)
                so = out['simulation_options']
                if so.get('max_workers') != 3 or so.get('layered') is not \
                        True or 'C_survey' not in out['files']['survey']:
                    msgs.append(f"options not given on the command line "
                                f"override the file: {so}")
                a = dict(_main_args([fn, '-n', '7', '--survey', 'T_s']))
                out, term = P.parse_config_file(a)
                if out['simulation_options'].get('max_workers') != 7 or \
                        'T_s' not in out['files']['survey']:
                    msgs.append("given options do not override the file")
            except Exception as e:      # noqa
                msgs.append(f"raised {e!r}"[:200])
            return bool(msgs), ("real main() + parser: " +
                                ('; '.join(msgs) or 'ok'))
    finally:
        shutil.rmtree(tmp, ignore_errors=True)
    return False, 'unknown kind'


def _replay_runload(cex, tmp):
    """Real CLI functions: a forward run saved with --save, then --load
    --clean with another model (real files, tiny real solves)."""
    import emg3d
    from emg3d.cli import run as R
    grid = emg3d.TensorMesh([np.ones(8)*100]*3, (-400, -400, -400))
    survey = emg3d.Survey(
        [emg3d.TxElectricDipole((0, 0, 0, 0, 0))],
        [emg3d.RxElectricPoint((100, 50, 0, 0, 0))], [1.0],
        data=np.ones((1, 1, 1))+0j, noise_floor=1e-15, relative_error=0.05)
    # observed data = response of model 1, so that the misfit depends on
    # the model (0 for model 1)
    s0 = emg3d.Simulation(survey, emg3d.Model(grid, 1.0), gridding='same',
                          max_workers=1, verb=-1, tqdm_opts=False)
    s0.compute(observed=True, add_noise=False)
    survey = emg3d.Survey(
        [emg3d.TxElectricDipole((0, 0, 0, 0, 0))],
        [emg3d.RxElectricPoint((100, 50, 0, 0, 0))], [1.0],
        data=s0.data.observed.data.copy(), noise_floor=1e-15,
        relative_error=0.05)
    emg3d.save(os.path.join(tmp, 'survey.h5'), survey=survey, verb=0)
    emg3d.save(os.path.join(tmp, 'model.h5'),
               model=emg3d.Model(grid, 1.0), verb=0)
    emg3d.save(os.path.join(tmp, 'model2.h5'),
               model=emg3d.Model(grid, 2.0), verb=0)
    cfgf = os.path.join(tmp, 'emg3d.cfg')
    with open(cfgf, 'w') as f:
        f.write("[simulation]\ngridding=same\n" +
                ("[gridding_opts]\n" if cex.get('with_gopts') else ""))
    base = dict(config=cfgf, verbosity=-1, nproc=1, dry_run=False,
                clean=False, layered=None, forward=False, misfit=True,
                gradient=False, path=tmp, survey=None, model=None,
                output=None, save='sim.h5', load=None, cache=None)
    try:
        R.simulation(dict(base))
        second = dict(base, save=None, load='sim.h5', clean=True,
                      model='model2.h5', output='out2')
        R.simulation(second)
        out = emg3d.load(os.path.join(tmp, 'out2.h5'), verb=0)
        sim = emg3d.Simulation(survey, emg3d.Model(grid, 2.0),
                               gridding='same', max_workers=1, verb=-1,
                               tqdm_opts=False)
        want = float(sim.misfit)
        got = float(np.asarray(out['misfit']))
        bad = not np.isclose(got, want, rtol=1e-3, atol=1e-9*abs(want))
        return bad, (f"real CLI --load --clean with a new model: misfit "
                     f"{got:.6e}, API with that model {want:.6e}")
    except Exception as e:      # noqa
        return True, f"real CLI --load --clean raised {e!r}"[:250]


def _dispatch(job):
    import symx.core
    out = globals()[job[0]](job[1])
    # account the case's solver time (path feasibility and validity
    # queries) and wall time on its obligations
    cx = symx.core._CTX[0]
    sol = cx.stats['solver_s'] if cx is not None else 0.0
    for o in out:
        if not o.get('seconds') and o.get('cls') == 'LIN':
            o['seconds'] = sol/max(1, len(out))
    return out


def main(tier):
    shadow.load()
    run = Run(PID, tier, design_ref='DESIGN.md §6 C18')
    run.functions.update(shadow.func_lines('emg3d/cli/parser.py',
                                           ['parse_config_file']))
    run.functions.update(shadow.func_lines('emg3d/cli/run.py',
                                           ['simulation']))
    run.extra['hashes'] = {k: v for k, v in shadow.hashes().items()
                           if k.startswith('emg3d/cli/')}
    docs = documented()
    keys = [(s, k, kind) for s, lst in docs.items() for k, kind, _ in lst]
    jobs = [('case_key', x) for x in keys]
    jobs += [('case_downstream', x) for x in keys if x[0] != 'files']
    jobs += [('case_unknown', s) for s in docs]
    jobs += [('case_precedence', 'options'), ('case_precedence', 'files')]
    jobs += [('case_run', (f, d_)) for f in ('forward', 'misfit',
                                              'gradient')
             for d_ in ({'sources': ['a'], 'remove_empty': True},
                        {'remove_empty': True}, {'receivers': ['r']}, {})]
    jobs += [('case_run_load', (f, g)) for f in ('forward', 'misfit',
                                                  'gradient')
             for g in (True, False)]
    jobs += [('case_main', None)]
    obs = pmap(_dispatch, jobs)
    run.add(obs)
    run.bounds = dict(documented_keys={s: [k for k, _, _ in v]
                                       for s, v in docs.items()},
                      presence="one documented key at a time; the "
                      "precedence case combines 2+2+5 present/absent "
                      "choices x terminal/configuration",
                      values="int/float options symbolic (all values), "
                      "bool options both values, strings opaque tokens, "
                      "lists a representative text")
    run.assumptions = [
        "the list of documented options is docs/manual/cli.rst (re-read on "
        "every run)",
        "configparser is modelled: typed getters return symbolic values of "
        "their type; option text of list-valued options is a fixed "
        "representative (the split/strip parsing runs for real on it)",
        "'same effect as the API' is decided as: the value arrives "
        "unchanged in the dictionary that run.py passes verbatim to the API "
        "call, and that API call accepts the keyword; equality of the files "
        "written by real CLI and API runs is outside",
    ]
    run.stubs = ["configparser.ConfigParser -> CfgModel", "builtins "
                 "float/int/min/max in cli.parser -> symbolic-aware",
                 "cli.run: parser, check_files, logger, io.load/io.save, "
                 "Simulation -> recording stubs", "solver.multigrid/krylov "
                 "-> no-op for the acceptance of solver options"]
    run.outside = ["combinations of several options at once (beyond the "
                   "precedence case)", "whole-program runs: real files, "
                   "real solves, three formats"]
    run.explanation = (
        "parse_config_file is executed on a modelled configuration whose "
        "typed getters return solver variables; for every documented key "
        "the routed value is compared with the configured one (for all "
        "values), unknown keys must raise, terminal-vs-file precedence is "
        "explored over all present/absent combinations, and every routed "
        "option is offered to the API function that receives it.")
    for o in obs[:3]:
        run.sample(dict(group=o['group'], label=o['label'][:200],
                        verdict=o['verdict'], note=o['note']))
    return run.finish(replay)
