"""C15 — volume averaging between grids conserves the integrated property.

Real code (shadow): maps._volume_average_weights, maps.interp_volume_average,
maps.interpolate(method='volume', log=...), maps._interp_volume_average_adj,
models.Model.interpolate_to_grid.

(A) 1-D weights with *symbolic* node coordinates of both grids: every
    interleaving (incl. ties) is a path; per path a complete specification of
    1-D volume averaging with nearest fill is decided (LIN).
(B) 3-D on concrete dyadic grid pairs with symbolic cell values: kernel ==
    overlap oracle, conservation, range, identity, forward == (adjoint)^T,
    log mode (log10 / 10**x axiomatised) incl. rho/sigma symmetry and the
    choice of log mode by Model.interpolate_to_grid.
"""
import time
import itertools
from fractions import Fraction

import numpy as np
import z3

import symx
from symx import Q, B, Ctx, set_ctx, sym_array, State, shadow, Inconclusive
from .common import ob, Run, pmap

PID = 'C15'


def case_weights_1d(case):
    n1, n2 = case       # number of nodes of input / output grid
    E = shadow.load()
    c = set_ctx(Ctx(timeout_ms=60000))
    State.OBJECT_ALLOC = True
    xi_ = [Q.var(f"xi[{k}]") for k in range(n1)]
    xo_ = [Q.var(f"xo[{k}]") for k in range(n2)]
    for arr in (xi_, xo_):
        for a, b in zip(arr[:-1], arr[1:]):
            c.assume(B(a.t < b.t))
    grp = f"1-D weights, {n1-1} input cells x {n2-1} output cells"
    stats = dict(paths=0, queries=0)
    bad = None
    t0 = time.time()

    def path():
        x_i = np.array(xi_, dtype=object).view(symx.SymArray)
        x_o = np.array(xo_, dtype=object).view(symx.SymArray)
        return E.maps._volume_average_weights(x_i, x_o)
    try:
        for (wx, ii, io), pc, tr in c.explore(path, budget_s=1200):
            stats['paths'] += 1
            c.pc = pc
            K = len(wx)
            ii = [int(k) for k in ii]
            io = [int(k) for k in io]
            conj = []
            a = xo_[0]
            ends = [a]
            for k in range(K):
                a = a + wx[k]
                ends.append(a)
            conj.append(symx.qt(ends[-1]) == xo_[-1].t)
            why = None
            for k in range(K):
                conj.append(symx.qt(wx[k]) > 0)
                if not (0 <= io[k] <= n2-2 and 0 <= ii[k] <= n1-2):
                    why = f"index out of range at {k}: {ii[k]}, {io[k]}"
                    break
                lo, hi = symx.qt(ends[k]), symx.qt(ends[k+1])
                conj.append(z3.And(xo_[io[k]].t <= lo, hi <= xo_[io[k]+1].t))
                inside = z3.And(xi_[ii[k]].t <= lo, hi <= xi_[ii[k]+1].t)
                left = z3.And(hi <= xi_[0].t, z3.BoolVal(ii[k] == 0))
                right = z3.And(lo >= xi_[-1].t, z3.BoolVal(ii[k] == n1-2))
                conj.append(z3.Or(inside, left, right))
            if why is None:
                v, m = c.valid(z3.And(*conj), label='1d spec')
                stats['queries'] += 1
                if v != 'held':
                    why = f"1-D specification fails ({v})"
            else:
                v, m = 'cex', None
                r, m = c.check(label='witness')
            if why:
                wit = None
                if m is not None:
                    wit = dict(
                        x_i=[float(symx.model_value(m, q)) for q in xi_],
                        x_o=[float(symx.model_value(m, q)) for q in xo_])
                bad = (why, v, wit)
                break
    except Inconclusive as e:
        return [ob("exploration", 'unknown', group=grp, cls='LIN',
                   note=str(e))]
    dt = time.time()-t0
    if bad:
        why, v, wit = bad
        return [ob("1-D weights specification", 'cex' if v == 'cex' else
                   'unknown', group=grp, cls='LIN', seconds=dt, note=why,
                   key="_volume_average_weights violates the 1-D "
                       "specification",
                   cex=dict(kind='w1d', n1=n1, n2=n2, witness=wit))]
    return [ob(f"all {stats['paths']} interleavings (incl. ties): weights "
               f"> 0, tile the output hull, each piece lies in its output "
               f"cell and in its input cell (or is nearest-filled)", 'held',
               group=grp, cls='LIN', seconds=dt,
               note=f"paths={stats['paths']} queries={c.stats['queries']}"),
            ob("twin: more than one interleaving reached", 'twin_sat' if
               stats['paths'] > 1 else 'twin_unsat', group=grp, cls='LIN',
               nontrivial=False)]


# --------------------------------------------------------------------------
# 3-D, concrete dyadic grids
# --------------------------------------------------------------------------
PAIRS = {
    # name: (h_in, origin_in, h_out, origin_out)  — dyadic coordinates, and
    # power-of-two output widths so that discretize's weights are exact
    'equal': ([[1, 2], [2, 1, 1], [1, 1]], (0, 0, 0),
              [[1, 2], [2, 1, 1], [1, 1]], (0, 0, 0)),
    'coarser': ([[1, 1, 1, 1], [1, 1], [.5, .5, 1, 2]], (0, 0, 0),
                [[2, 2], [2], [1, 1, 2]], (0, 0, 0)),
    'finer': ([[2, 2], [4], [2, 1, 1]], (0, 0, 0),
              [[1, 1, 1, 1], [2, 2], [1, 1, 1, 1]], (0, 0, 0)),
    'shifted': ([[1, 1, 1], [2, 2], [1, 1]], (0, 0, 0),
                [[1, 1, 1], [2, 2], [1, 1]], (.5, 1, .25)),
    'overhang': ([[1, 2, 1], [1, 1], [2]], (0, 0, 0),
                 [[2, 2, 2], [1, 2], [1, 1, 1]], (-1, -.5, -.5)),
    # output cells whose CENTRES lie outside the input grid (padding)
    'padded': ([[1, 1], [2], [1, 1]], (0, 0, 0),
               [[2, 2, 2, 2], [4, 4], [2, 2]], (-3, -3, -1)),
    'inside': ([[1, 1, 2], [2, 1], [1, 1, 1]], (0, 0, 0),
               [[1, 1], [1], [.5, .5]], (1, .5, 1)),
    'single': ([[2], [1], [4]], (0, 0, 0), [[1, 1], [1], [2, 2]],
               (0, 0, 0)),
    'interleaved': ([[1.5, 1.5, 1], [1, 3], [2, 2]], (0, 0, 0),
                    [[1, 1, 1, 1], [2, 2], [4]], (0, 0, 0)),
    'mini_c': ([[1, 1], [1], [2]], (0, 0, 0), [[2], [1], [1, 1]],
               (0, 0, 0)),
    'mini_s': ([[1, 1], [2], [1]], (0, 0, 0), [[1, 1], [2], [1]],
               (.5, 0, 0)),
}
LOG_PAIRS = ('single', 'mini_c', 'mini_s')


def _nodes(h, origin):
    return [np.r_[0., np.cumsum(np.array(hd, dtype=float))]+o
            for hd, o in zip(h, origin)]


def _overlap_1d(xi, xo, i, j):
    """Overlap of output cell j with input cell i extended to +-inf at the
    ends of the input grid (nearest fill)."""
    lo = Fraction(float(xi[i])) if i > 0 else None
    hi = Fraction(float(xi[i+1])) if i < len(xi)-2 else None
    a, b = Fraction(float(xo[j])), Fraction(float(xo[j+1]))
    if lo is not None:
        a = max(a, lo)
    if hi is not None:
        b = min(b, hi)
    return max(Fraction(0), b-a)


def oracle(nin, nout, values):
    si = tuple(len(n)-1 for n in nin)
    so = tuple(len(n)-1 for n in nout)
    w = [[[_overlap_1d(nin[d], nout[d], i, j) for j in range(so[d])]
          for i in range(si[d])] for d in range(3)]
    out = np.empty(so, dtype=object)
    for jo in np.ndindex(*so):
        vol = Fraction(1)
        for d in range(3):
            vol *= Fraction(float(nout[d][jo[d]+1]))-Fraction(
                float(nout[d][jo[d]]))
        tot = Q(Fraction(0))
        for ii in np.ndindex(*si):
            ww = w[0][ii[0]][jo[0]]*w[1][ii[1]][jo[1]]*w[2][ii[2]][jo[2]]
            if ww:
                tot = tot + Q(ww/vol)*values[ii]
        out[jo] = tot
    return out


def _grids(E, name):
    hi, oi, ho, oo = PAIRS[name]
    gi = E.meshes.TensorMesh([np.array(x, dtype=float) for x in hi], oi)
    go = E.meshes.TensorMesh([np.array(x, dtype=float) for x in ho], oo)
    return gi, go, _nodes(hi, oi), _nodes(ho, oo)


def case_3d(name):
    E = shadow.load()
    c = set_ctx(Ctx(timeout_ms=60000))
    State.OBJECT_ALLOC = True
    gi, go, nin, nout = _grids(E, name)
    si, so = gi.shape_cells, go.shape_cells
    grp = f"3-D pair '{name}' {si}->{so}"
    obs = []
    v = sym_array('v', si, positive=True)
    t1 = time.time()
    got = E.maps.interpolate(gi, v, go, method='volume', log=False)
    want = oracle(nin, nout, v)
    conj = [symx.qt(got[j]) == symx.qt(want[j]) for j in np.ndindex(*so)]
    vd, m = c.valid(z3.And(*conj), label='kernel==oracle')

    def cexd(kind):
        return dict(kind=kind, pair=name)
    obs.append(ob(f"interpolate(volume) == overlap oracle on all "
                  f"{len(conj)} new cells (nearest fill outside)", vd,
                  group=grp, cls='LIN', seconds=time.time()-t1,
                  key=f"volume average != overlap-weighted mean ({name})",
                  cex=cexd('linear') if vd == 'cex' else None))
    vol_i = np.asarray(gi.cell_volumes).reshape(si, order='F')
    vol_o = np.asarray(go.cell_volumes).reshape(so, order='F')
    same_hull = all(n1[0] == n2[0] and n1[-1] == n2[-1]
                    for n1, n2 in zip(nin, nout))
    if same_hull:
        t1 = time.time()
        lhs = Q(Fraction(0))
        for j in np.ndindex(*so):
            lhs = lhs + got[j]*float(vol_o[j])
        rhs = Q(Fraction(0))
        for i in np.ndindex(*si):
            rhs = rhs + v[i]*float(vol_i[i])
        vd, m = c.valid(symx.qt(lhs) == symx.qt(rhs), label='conservation')
        obs.append(ob("integral conserved: sum new*vol == sum old*vol", vd,
                      group=grp, cls='LIN', seconds=time.time()-t1,
                      key=f"volume average does not conserve ({name})",
                      cex=cexd('linear') if vd == 'cex' else None))
    # range: lo <= all v <= hi  =>  lo <= new <= hi
    t1 = time.time()
    lo, hi = Q.var('lo'), Q.var('hi')
    pre = z3.And(*[z3.And(lo.t <= x.t, x.t <= hi.t) for x in v.flat])
    post = z3.And(*[z3.And(lo.t <= symx.qt(got[j]), symx.qt(got[j]) <= hi.t)
                    for j in np.ndindex(*so)])
    vd, m = c.valid(z3.Implies(pre, post), label='range')
    obs.append(ob("result never leaves the range of the input values", vd,
                  group=grp, cls='LIN', seconds=time.time()-t1,
                  key=f"volume average leaves the input range ({name})",
                  cex=cexd('linear') if vd == 'cex' else None))
    if name == 'equal':
        same = all(symx.qt(got[j]).eq(symx.qt(v[j])) or
                   c.valid(symx.qt(got[j]) == symx.qt(v[j]))[0] == 'held'
                   for j in np.ndindex(*so))
        obs.append(ob("identity between equal grids", 'held' if same else
                      'cex', group=grp, cls='LIN',
                      key="volume average between equal grids is not the "
                          "identity", cex=cexd('linear') if not same
                      else None))
    # forward == (adjoint)^T, component by component, no cross-talk
    t1 = time.time()
    State.OBJECT_ALLOC = False
    try:
        n_o = int(np.prod(so))
        A = np.zeros((3, 3, int(np.prod(si)), n_o))
        for comp in range(3):
            for k in range(n_o):
                nval = np.zeros((3,)+tuple(so))
                nval[comp].ravel(order='F')[k] = 1.0   # noqa
                nv = np.zeros((3, n_o))
                nv[comp, k] = 1.0
                nval = nv.reshape((3,)+tuple(so), order='F')
                oval = np.zeros((3,)+tuple(si))
                E.maps._interp_volume_average_adj(oval, gi, nval, go)
                for c2 in range(3):
                    A[comp, c2, :, k] = oval[c2].ravel(order='F')
    finally:
        State.OBJECT_ALLOC = True
    cross = max(float(np.abs(A[a, b]).max()) for a in range(3)
                for b in range(3) if a != b)
    conj = []
    vflat = v.ravel(order='F')
    for comp in range(3):
        for k, j in enumerate(np.ndindex(*so[::-1])):
            jj = j[::-1]
            tot = Q(Fraction(0))
            for i in range(len(vflat)):
                if A[comp, comp, i, k] != 0:
                    tot = tot + Q(A[comp, comp, i, k])*vflat[i]
            conj.append(symx.qt(got[jj]) == symx.qt(tot))
    vd, m = c.valid(z3.And(*conj), label='adjoint')
    if cross != 0:
        vd = 'cex'
    obs.append(ob("forward map == transpose of _interp_volume_average_adj "
                  "for each of the three components; no cross-talk between "
                  "components", vd, group=grp, cls='LIN',
                  seconds=time.time()-t1, note=f"cross-talk max {cross}",
                  key=f"volume average is not the transpose of its adjoint "
                      f"({name})",
                  cex=cexd('adjoint') if vd == 'cex' else None))
    return obs


def case_log(name):
    """log mode of interpolate(): 10**(volume average of log10)."""
    E = shadow.load()
    c = set_ctx(Ctx(timeout_ms=60000))
    State.OBJECT_ALLOC = True
    gi, go, nin, nout = _grids(E, name)
    si, so = gi.shape_cells, go.shape_cells
    grp = f"log mode pair '{name}' {si}->{so}"
    obs = []
    v = sym_array('v', si, positive=True)

    def cexd(kind):
        return dict(kind=kind, pair=name)
    # log mode: 10**(average of log10): log-integral conserved, rho/sigma
    t1 = time.time()
    glog = E.maps.interpolate(gi, v, go, method='volume', log=True)
    rinv = np.empty(si, dtype=object)
    for i in np.ndindex(*si):
        rinv[i] = 1/v[i]
    rlog = E.maps.interpolate(gi, rinv.view(symx.SymArray), go,
                              method='volume', log=True)
    vd = 'held'
    for j in np.ndindex(*so):
        v1, m = c.valid(symx.qt(glog[j]*rlog[j]) == 1, label='rho/sigma')
        if v1 != 'held':
            vd = v1
            break
    obs.append(ob("log mode: interpolating 1/sigma gives 1/(interpolated "
                  "sigma) on every new cell", vd, group=grp, cls='UF+NRA',
                  seconds=time.time()-t1,
                  key=f"log-mode volume average not symmetric in rho/sigma "
                      f"({name})",
                  cex=cexd('log') if vd == 'cex' else None))
    t1 = time.time()
    lgo = oracle(nin, nout, np.array(
        [symx.ufun_apply('lg', x) for x in v.flat],
        dtype=object).reshape(si))
    vd = 'held'
    for j in np.ndindex(*so):
        v1, m = c.valid(symx.qt(symx.ufun_apply('lg', glog[j])) ==
                        symx.qt(lgo[j]),
                        label='log avg')
        if v1 != 'held':
            vd = v1
            break
    obs.append(ob("log mode: log10(result) == volume average of "
                  "log10(values)", vd, group=grp, cls='UF+NRA',
                  seconds=time.time()-t1,
                  key=f"log-mode volume average is not the average of the "
                      f"logarithm ({name})",
                  cex=cexd('log') if vd == 'cex' else None))
    return obs


def case_model(case):
    """Model.interpolate_to_grid: log mode from the mapping; explicit log=
    honoured; resistivity and conductivity models agree."""
    name, mapping = case
    E = shadow.load()
    c = set_ctx(Ctx(timeout_ms=60000))
    State.OBJECT_ALLOC = True
    gi, go, nin, nout = _grids(E, name)
    si, so = gi.shape_cells, go.shape_cells
    grp = f"Model.interpolate_to_grid pair='{name}' mapping={mapping}"
    sig = sym_array('sig', si, positive=True)
    M = getattr(E.maps, 'Map'+mapping)()
    model = E.models.Model(gi, property_x=M.forward(sig), mapping=mapping)
    obs = []
    t1 = time.time()
    new = model.interpolate_to_grid(go)
    newsig = M.backward(new.property_x)
    if mapping.startswith('L'):
        # log-type mapping: linear average of the (log) property
        want = M.backward(oracle(nin, nout, model.property_x).view(
            symx.SymArray))
    else:
        lgo = oracle(nin, nout, np.array(
            [symx.ufun_apply('lg', x) for x in sig.flat],
            dtype=object).reshape(si))
        want = None
    vd = 'held'
    for j in np.ndindex(*so):
        if want is not None:
            q = symx.qt(newsig[j]) == symx.qt(want[j])
        else:
            q = symx.qt(symx.ufun_apply('lg', newsig[j])) == \
                symx.qt(lgo[j])
        v1, m = c.valid(q, label='model interp')
        if v1 != 'held':
            vd = v1
            break
    obs.append(ob("default: the new conductivity is the volume average on "
                  "log10 scale (log of sigma averaged), for every mapping",
                  vd, group=grp, cls='UF+NRA', seconds=time.time()-t1,
                  key=f"Model.interpolate_to_grid default averaging wrong "
                      f"(mapping {mapping})",
                  cex=dict(kind='model', pair=name, mapping=mapping)
                  if vd == 'cex' else None))
    if mapping.startswith('L'):
        # history on the SAME model object: values changed in place (index
        # assignment and setter), interpolated again to an equal grid ->
        # the result follows the current values
        t1 = time.time()
        go2 = E.meshes.TensorMesh([np.array(x, dtype=float)
                                   for x in PAIRS[name][2]], PAIRS[name][3])
        sig2 = sym_array('sg2', si, positive=True)
        p2 = M.forward(sig2)
        k0 = (0,)*len(si)
        model.property_x[k0] = p2[k0]                   # index assignment
        r1 = model.interpolate_to_grid(go)
        w1 = oracle(nin, nout, model.property_x)
        model.property_x = p2                           # setter
        r2 = model.interpolate_to_grid(go2)
        w2 = oracle(nin, nout, model.property_x)
        vd = 'held'
        for got_, want_ in ((r1.property_x, w1), (r2.property_x, w2)):
            for j in np.ndindex(*so):
                if symx.qt(got_[j]).eq(symx.qt(want_[j])):
                    continue
                v1, m = c.valid(symx.qt(got_[j]) == symx.qt(want_[j]),
                                label='model history')
                if v1 != 'held':
                    vd = v1
                    break
            if vd != 'held':
                break
        obs.append(ob("after changing the values in place (index assignment, "
                      "setter) a new interpolation to the same / an equal "
                      "grid follows the current values", vd, group=grp,
                      cls='UF+NRA', seconds=time.time()-t1,
                      key="Model.interpolate_to_grid returns a stale result "
                          "after an in-place update",
                      cex=dict(kind='model_hist', pair=name, mapping=mapping)
                      if vd == 'cex' else None))
    if not mapping.startswith('L'):
        # fresh context: no transcendental axioms needed here
        c = set_ctx(Ctx(timeout_ms=60000))
        sig = sym_array('sig', si, positive=True)
        model = E.models.Model(gi, property_x=M.forward(sig),
                               mapping=mapping)
        t1 = time.time()
        lin = model.interpolate_to_grid(go, log=False)
        wl = oracle(nin, nout, model.property_x)
        vd = 'held'
        for j in np.ndindex(*so):
            v1, m = c.valid(symx.qt(lin.property_x[j]) == symx.qt(wl[j]),
                            label='log=False')
            if v1 != 'held':
                vd = v1
                break
        obs.append(ob("explicit log=False is honoured (linear average of "
                      "the property)", vd, group=grp, cls='UF+NRA',
                      seconds=time.time()-t1,
                      key="Model.interpolate_to_grid ignores log=False",
                      cex=dict(kind='model_lin', pair=name, mapping=mapping)
                      if vd == 'cex' else None))
    return obs


# --------------------------------------------------------------------------
def replay(cex):
    import emg3d
    kind = cex['kind']
    rng = np.random.default_rng(3)
    if kind == 'w1d':
        wit = cex.get('witness')
        if not wit:
            return False, 'no witness'
        x_i, x_o = np.array(wit['x_i']), np.array(wit['x_o'])
        wx, ii, io = emg3d.maps._volume_average_weights(x_i, x_o)
        msgs = []
        if abs(wx.sum()-(x_o[-1]-x_o[0])) > 1e-9*max(1, abs(x_o).max()):
            msgs.append(f"weights sum {wx.sum()} != output hull "
                        f"{x_o[-1]-x_o[0]}")
        a = x_o[0]
        for k in range(len(wx)):
            lo, hi = a, a+wx[k]
            a = hi
            eps = 1e-9*max(1, abs(x_o).max())
            if wx[k] <= 0:
                msgs.append(f"non-positive weight {wx[k]}")
            if not (x_o[io[k]]-eps <= lo and hi <= x_o[io[k]+1]+eps):
                msgs.append(f"piece {k} not in output cell {io[k]}")
            ins = x_i[ii[k]]-eps <= lo and hi <= x_i[ii[k]+1]+eps
            lf = hi <= x_i[0]+eps and ii[k] == 0
            rt = lo >= x_i[-1]-eps and ii[k] == len(x_i)-2
            if not (ins or lf or rt):
                msgs.append(f"piece {k} not in input cell {ii[k]}")
        return bool(msgs), (f"real _volume_average_weights({list(x_i)}, "
                            f"{list(x_o)}): " + ('; '.join(msgs[:3]) or
                                                 'specification holds'))
    hi, oi, ho, oo = PAIRS[cex['pair']]
    gi = emg3d.TensorMesh([np.array(x, dtype=float) for x in hi], oi)
    go = emg3d.TensorMesh([np.array(x, dtype=float) for x in ho], oo)
    nin, nout = _nodes(hi, oi), _nodes(ho, oo)
    si, so = gi.shape_cells, go.shape_cells
    v = 10**rng.uniform(-2, 2, si)

    def orc(vals):
        vq = np.empty(si, dtype=object)
        for i in np.ndindex(*si):
            vq[i] = Q(Fraction(float(vals[i])))
        o = oracle(nin, nout, vq)
        return np.array([float(x.c) for x in o.flat]).reshape(so)
    if kind == 'linear':
        got = emg3d.maps.interpolate(gi, v, go, method='volume', log=False)
        err = float(np.abs(got/orc(v)-1).max())
        return err > 1e-9, (f"real interpolate(volume) on pair "
                            f"'{cex['pair']}' vs overlap-weighted mean: "
                            f"max rel. diff {err:.2e}")
    if kind == 'log':
        got = emg3d.maps.interpolate(gi, v, go, method='volume', log=True)
        want = 10**orc(np.log10(v))
        r = emg3d.maps.interpolate(gi, 1/v, go, method='volume', log=True)
        e1 = float(np.abs(got/want-1).max())
        e2 = float(np.abs(got*r-1).max())
        return (e1 > 1e-9 or e2 > 1e-9), (
            f"real log-mode interpolate on '{cex['pair']}': vs 10**(average "
            f"of log10) {e1:.2e}; rho*sigma-1 {e2:.2e}")
    if kind == 'model_hist':
        hi, oi, ho, oo = PAIRS[cex['pair']]
        gi = emg3d.TensorMesh([np.array(x, dtype=float) for x in hi], oi)
        go = emg3d.TensorMesh([np.array(x, dtype=float) for x in ho], oo)
        go2 = emg3d.TensorMesh([np.array(x, dtype=float) for x in ho], oo)
        mapping = cex['mapping']
        M = getattr(emg3d.maps, 'Map'+mapping)()
        model = emg3d.Model(gi, property_x=M.forward(
            rng.uniform(.5, 2, gi.shape_cells)), mapping=mapping)
        model.interpolate_to_grid(go)
        model.property_x[(0,)*3] = M.forward(np.array([7.5]))[0]
        r1 = model.interpolate_to_grid(go).property_x.copy()
        f1 = emg3d.Model(gi, property_x=model.property_x.copy(),
                         mapping=mapping).interpolate_to_grid(go).property_x
        model.property_x = M.forward(rng.uniform(.5, 2, gi.shape_cells))
        r2 = model.interpolate_to_grid(go2).property_x.copy()
        f2 = emg3d.Model(gi, property_x=model.property_x.copy(),
                         mapping=mapping).interpolate_to_grid(go).property_x
        d = max(np.abs(r1-f1).max(), np.abs(r2-f2).max())
        return d > 1e-12, (f"real Model.interpolate_to_grid after in-place "
                           f"updates vs a fresh model with the same values: "
                           f"max diff {d:.3e}")
    if kind == 'adjoint':
        w = rng.normal(size=(3,)+tuple(so))
        u = 10**rng.uniform(-1, 1, (3,)+tuple(si))
        oval = np.zeros((3,)+tuple(si))
        emg3d.maps._interp_volume_average_adj(oval, gi, w, go)
        worst = 0.0
        for comp in range(3):
            f = emg3d.maps.interpolate(gi, u[comp], go, method='volume',
                                       log=False)
            lhs = float((f*w[comp]).sum())
            rhs = float((u[comp]*oval[comp]).sum())
            worst = max(worst, abs(lhs-rhs)/max(1, abs(lhs)))
        return worst > 1e-9, (f"<F u, w> vs <u, F^T w> per component on "
                              f"'{cex['pair']}': max rel. diff {worst:.2e}")
    if kind in ('model', 'model_lin'):
        mapping = cex['mapping']
        M = getattr(emg3d.maps, 'Map'+mapping)()
        model = emg3d.Model(gi, property_x=M.forward(v), mapping=mapping)
        if kind == 'model_lin':
            new = model.interpolate_to_grid(go, log=False)
            want = orc(M.forward(v))
            err = float(np.abs(new.property_x/want-1).max())
        else:
            new = model.interpolate_to_grid(go)
            if mapping.startswith('L'):
                want = M.backward(orc(M.forward(v)))
            else:
                want = 10**orc(np.log10(v))
            err = float(np.abs(M.backward(new.property_x)/want-1).max())
        return err > 1e-9, (f"real Model.interpolate_to_grid ({mapping}, "
                            f"{kind}) on '{cex['pair']}': max rel. diff "
                            f"{err:.2e}")
    return False, 'unknown kind'


def _dispatch(job):
    return globals()[job[0]](job[1])


def main(tier):
    shadow.load()
    run = Run(PID, tier, design_ref='DESIGN.md §6 C15')
    run.functions.update(shadow.func_lines(
        'emg3d/maps.py', ['_volume_average_weights', 'interp_volume_average',
                          'interpolate', '_points_from_grids',
                          '_interp_volume_average_adj']))
    run.functions.update(shadow.func_lines('emg3d/models.py',
                                           ['interpolate_to_grid']))
    run.extra['hashes'] = {k: v for k, v in shadow.hashes().items()
                           if k in ('emg3d/maps.py', 'emg3d/models.py')}
    if tier == 'quick':
        sizes = [(a, b) for a in (2, 3, 4) for b in (2, 3, 4)] + \
            [(5, 3), (3, 5)]
        mpairs = [('mini_c', 'Resistivity'), ('mini_s', 'Conductivity'),
                  ('mini_c', 'LgResistivity'), ('mini_s', 'LnConductivity'),
                  ('mini_c', 'LgConductivity'), ('mini_s', 'LnResistivity')]
    else:
        sizes = [(a, b) for a in (2, 3, 4, 5) for b in (2, 3, 4, 5)]
        mpairs = [(p, m) for p in ('mini_c', 'mini_s', 'single')
                  for m in ('Resistivity', 'Conductivity', 'LgResistivity',
                            'LgConductivity', 'LnResistivity',
                            'LnConductivity')]
    jobs = [('case_weights_1d', s) for s in sizes]
    jobs += [('case_3d', n) for n in PAIRS]
    jobs += [('case_log', n) for n in LOG_PAIRS]
    jobs += [('case_model', p) for p in mpairs]
    jobs.sort(key=lambda j: -(j[1][0]*j[1][1] if j[0] == 'case_weights_1d'
                              else 5))
    obs = pmap(_dispatch, jobs)
    run.add(obs)
    run.bounds = dict(
        one_d_symbolic_node_counts=sizes, log_mode_pairs=LOG_PAIRS,
        three_d_pairs={k: [v[0], v[2]] for k, v in PAIRS.items()},
        model_pairs=mpairs,
        symbolic="1-D: all node coordinates of both grids; 3-D: all cell "
                 "values (> 0), range bounds")
    run.assumptions = [
        "the 3-D kernel is the tensor product of the 1-D weights (checked "
        "on the concrete pairs against an independent overlap oracle)",
        "log10 / 10**x are uninterpreted functions with p10(lg y)=y, "
        "lg(p10 x)=x, p10>0, p10(-x)*p10(x)=1, lg(1/m)=-lg(m)",
        "concrete 3-D grids have dyadic coordinates and power-of-two output "
        "cell sizes so that discretize's float weights are exact rationals",
    ]
    run.stubs = ["numba.njit -> identity",
                 "discretize.utils.volume_average -> real library, probed "
                 "with unit vectors (concrete) to obtain the adjoint matrix"]
    run.outside = ["grids with more cells than the bounds", "rounding"]
    run.explanation = (
        "The 1-D weight routine is executed on symbolic node coordinates of "
        "both grids; the explorer enumerates every interleaving (including "
        "coinciding nodes) as a path and z3 decides a complete 1-D "
        "specification per path.  The 3-D kernel, interpolate(), the "
        "adjoint helper and Model.interpolate_to_grid are executed on "
        "concrete dyadic grid pairs with symbolic cell values; z3 decides "
        "equality with an overlap oracle, conservation, range, transpose "
        "and the log-mode identities.")
    for o in obs[:3]:
        run.sample(dict(group=o['group'], label=o['label'],
                        verdict=o['verdict']))
    return run.finish(replay)
