"""C13 — misfit and data weights follow the noise model and stay untouched.

Real code (shadow): surveys.Survey (standard_deviation / noise_floor /
relative_error getters and setters, _set_nf_re, add_noise, random_noise,
select, copy, to_dict, from_dict) on xarray Datasets over object arrays;
simulations.Simulation.misfit (on a duck-typed carrier).
Observed data, noise floor, relative error, explicit standard deviation and
the random numbers drawn by random_noise are solver variables.
"""
import time
import itertools
from fractions import Fraction

import warnings

import numpy as np
import z3

import symx
from symx import Q, Qc, B, Ctx, set_ctx, sym_array, State, shadow, \
    Inconclusive
from symx.proxies import _Namespace
from .common import ob, Run, pmap

PID = 'C13'
SHAPES = {'nf_full': None, 'nf_src': (None, 1, 1), 'nf_rec': (1, None, 1),
          'nf_freq': (1, 1, None)}


class _Duck:
    pass


class RNG:
    def __init__(self):
        self.n = itertools.count()

    def uniform(self, a, b, shape):
        return sym_array(f"u{next(self.n)}", shape)

    def standard_normal(self, shape):
        return sym_array(f"n{next(self.n)}", shape)


def _symfloat(x):
    if symx.has_sym(x):
        return x.item() if isinstance(x, np.ndarray) else x
    return float(x)


def build(E, c, shape, nf, re, std, nan_at=None):
    """Shadow Survey with symbolic content. nf/re in {None,'scalar','full',
    'src','rec','freq'}; std bool."""
    ns, nr, nfq = shape
    src = [E.electrodes.TxElectricDipole((10.*i, 0, 0, 0, 0))
           for i in range(ns)]
    rec = [E.electrodes.RxElectricPoint((100.*(j+1), 5., 0, 0, 0))
           for j in range(nr)]
    freqs = [1.0+k for k in range(nfq)]
    d = np.empty(shape, dtype=object)
    for i in np.ndindex(*shape):
        d[i] = Qc.var(f"d{list(i)}")
    if nan_at is not None:
        d[nan_at] = symx.NAN

    def par(kind, name):
        if kind is None:
            return None
        if kind == 'scalar':
            q = Q.var(name)
            c.assume(B(q.t > 0))
            return q
        shp = {'full': shape, 'src': (ns, 1, 1), 'rec': (1, nr, 1),
               'freq': (1, 1, nfq)}[kind]
        return sym_array(name, shp, positive=True)
    kw = {}
    nfv, rev = par(nf, 'nf'), par(re, 're')
    if nfv is not None:
        kw['noise_floor'] = nfv
    if rev is not None:
        kw['relative_error'] = rev
    sv = E.surveys.Survey(src, rec, freqs, data=d.view(symx.SymArray), **kw)
    stdv = None
    if std:
        stdv = sym_array('std', shape, positive=True)
        sv.standard_deviation = stdv
    return sv, d, nfv, rev, stdv


def snapshot(sv):
    """Values of noise floor / relative error / explicit std as lists."""
    def vals(x):
        if x is None:
            return None
        if isinstance(x, np.ndarray):
            return [v for v in x.flat]
        if hasattr(x, 'data') and isinstance(x.data, np.ndarray):
            return [v for v in x.data.flat]
        return [x]
    std = sv.data['standard_deviation'] if 'standard_deviation' in \
        sv.data.keys() else None
    return dict(nf=vals(sv.noise_floor), re=vals(sv.relative_error),
                std=vals(std))


def same(c, a, b):
    """Are two snapshots provably equal? returns (verdict, which, model)."""
    for k in ('nf', 're', 'std'):
        x, y = a[k], b[k]
        if (x is None) != (y is None):
            return 'cex', k, None
        if x is None:
            continue
        if len(x) != len(y):
            return 'cex', k, None
        conj = []
        for p, q in zip(x, y):
            if p is q:
                continue
            if isinstance(p, symx.NaNQ) or isinstance(q, symx.NaNQ):
                return 'cex', k, None
            conj.append(symx.qt(p) == symx.qt(q))
        if conj:
            v, m = c.valid(z3.And(*conj), label=f'same {k}')
            if v != 'held':
                return v, k, m
    return 'held', None, None


def install(E):
    saved = (E.surveys.np, getattr(E.surveys, 'float', None))
    rng = RNG()
    E.surveys.np = _Namespace(saved[0], dict(random=_Namespace(
        np.random, dict(default_rng=lambda: rng))))
    E.surveys.float = _symfloat
    return saved


def uninstall(E, saved):
    E.surveys.np = saved[0]
    if saved[1] is None:
        try:
            del E.surveys.float
        except AttributeError:
            pass
    else:
        E.surveys.float = saved[1]


def case_sigma(case):
    """standard_deviation == sqrt(nf^2 + (re |d|)^2); explicit std wins."""
    shape, nf, re, std = case
    E = shadow.load()
    c = set_ctx(Ctx(timeout_ms=240000))
    State.OBJECT_ALLOC = True
    saved = install(E)
    grp = f"sigma shape={shape} nf={nf} re={re} explicit_std={std}"
    try:
        sv, d, nfv, rev, stdv = build(E, c, shape, nf, re, std)
        got = sv.standard_deviation
        obs = []
        t1 = time.time()
        if nf is None and re is None and not std:
            ok = got is None
            return [ob("no noise model -> standard_deviation is None",
                       'held' if ok else 'cex', cls='concrete', group=grp,
                       nontrivial=False, key="std not None without model",
                       cex=dict(kind='sigma', case=list(map(str, case)))
                       if not ok else None)]
        conj = []
        for i in np.ndindex(*shape):
            g = got.data[i]
            if std:
                conj.append(symx.qt(g) == symx.qt(stdv[i]))
                continue
            want2 = Q(Fraction(0))
            if nfv is not None:
                n = nfv if isinstance(nfv, Q) else np.broadcast_to(
                    nfv, shape)[i]
                want2 = want2 + n*n
            if rev is not None:
                r = rev if isinstance(rev, Q) else np.broadcast_to(
                    rev, shape)[i]
                want2 = want2 + r*r*d[i].abs2()
            conj.append(z3.And(symx.qt(g*g) == symx.qt(want2),
                               symx.qt(g) >= 0))
        vd, m = c.valid(z3.And(*conj), label='sigma')
        obs.append(ob("std_i^2 == nf_i^2 + (re_i |d_i|)^2 and std_i >= 0 "
                      "(explicit std returned unchanged)", vd, group=grp,
                      cls='NRA-small', seconds=time.time()-t1,
                      key=f"standard deviation formula wrong (nf={nf}, "
                          f"re={re}, explicit={std})",
                      cex=dict(kind='sigma', case=[list(shape), nf, re, std])
                      if vd == 'cex' else None))
        return obs
    finally:
        uninstall(E, saved)


OPS = {
    'add_noise': lambda sv: sv.add_noise(),
    'add_noise_gauss_new': lambda sv: sv.add_noise(
        ntype='gaussian_uncorrelated', add_to='noisy', min_amplitude=None),
    'add_noise_corr_offsets': lambda sv: sv.add_noise(
        ntype='gaussian_correlated', min_offset=150., max_offset=250.,
        mean_noise=0.5),
    'std_getter': lambda sv: sv.standard_deviation,
}


def case_immutable(case):
    """noise floor / relative error / std unchanged by an operation."""
    shape, nf, re, std, opname = case
    E = shadow.load()
    c = set_ctx(Ctx(timeout_ms=240000))
    State.OBJECT_ALLOC = True
    saved = install(E)
    grp = f"immutable op={opname} shape={shape} nf={nf} re={re} std={std}"
    bad = None
    npaths = 0
    t0 = time.time()
    try:
        def path():
            sv, d, nfv, rev, stdv = build(E, c, shape, nf, re, std)
            before = snapshot(sv)
            held = dict(nf=sv.noise_floor, re=sv.relative_error)
            held_vals = {k: (list(v.flat) if isinstance(v, np.ndarray)
                             else v) for k, v in held.items()}
            OPS[opname](sv)
            after = snapshot(sv)
            # objects handed out before the call must be unchanged too
            alias = True
            for k, v in held.items():
                if isinstance(v, np.ndarray):
                    alias &= all(a is b for a, b in zip(v.flat,
                                                        held_vals[k]))
            return before, after, alias
        for (before, after, alias), pc, tr in c.explore(path, budget_s=900,
                                                        max_paths=600):
            npaths += 1
            c.pc = pc
            v, which, m = same(c, before, after)
            if v != 'held':
                bad = (f"{which} changed by {opname}", v)
                break
            if not alias:
                bad = (f"array handed out by a getter was modified in "
                       f"place by {opname}", 'cex')
                break
    except Inconclusive as e:
        return [ob("exploration", 'unknown', group=grp, cls='LIN',
                   note=str(e))]
    finally:
        uninstall(E, saved)
    if bad:
        return [ob("noise settings unchanged", 'cex' if bad[1] == 'cex'
                   else 'unknown', group=grp, cls='LIN',
                   seconds=time.time()-t0, note=bad[0],
                   key=f"{opname}: {bad[0].split(' changed')[0]} modified "
                       f"({'array' if (nf not in (None, 'scalar') or re not in (None, 'scalar')) else 'scalar'} "
                       f"noise parameters)",
                   cex=dict(kind='immutable', shape=list(shape), nf=nf,
                            re=re, std=std, op=opname))]
    return [ob(f"{npaths} paths: noise floor, relative error and explicit "
               f"std equal their values before; arrays handed out earlier "
               f"untouched", 'held', group=grp, cls='LIN',
               seconds=time.time()-t0),
            ob("twin", 'twin_sat' if npaths >= 1 else 'twin_unsat',
               group=grp, cls='LIN', nontrivial=False)]


def case_reassign(case):
    """Explicit assignment is the only thing that changes the settings, and
    it does change them: array -> scalar -> None -> array, std -> None."""
    shape, what = case
    E = shadow.load()
    c = set_ctx(Ctx(timeout_ms=240000))
    State.OBJECT_ALLOC = True
    saved = install(E)
    grp = f"reassign {what} shape={shape}"
    try:
        sv, d, nfv, rev, stdv = build(E, c, shape, 'full', 'full', False)
        s1 = Q.var('s1')
        c.assume(B(s1.t > 0))
        a2 = sym_array('a2', (shape[0], 1, 1), positive=True)
        steps = []
        ok = True
        why = ''
        other = 'relative_error' if what == 'noise_floor' else 'noise_floor'
        other0 = [v for v in getattr(sv, other).flat]
        for nm, val in (('scalar', s1), ('None', None), ('array', a2),
                        ('scalar again', s1)):
            setattr(sv, what, val)
            got = getattr(sv, what)
            if val is None:
                good = got is None
            elif isinstance(val, Q):
                good = isinstance(got, Q) and got.t.eq(val.t)
            else:
                good = isinstance(got, np.ndarray) and got.shape == shape \
                    and all(x is y or c.valid(symx.qt(x) == symx.qt(y))[0]
                            == 'held' for x, y in zip(
                                got.flat, np.broadcast_to(val, shape).flat))
            # standard deviation follows the newly assigned value
            std = sv.standard_deviation
            i0 = (0,)*3
            want2 = Q(Fraction(0))
            nfc, rec_ = sv.noise_floor, sv.relative_error
            for par, isre in ((nfc, False), (rec_, True)):
                if par is None:
                    continue
                pv = par if isinstance(par, Q) else par[i0]
                want2 = want2 + (pv*pv*d[i0].abs2() if isre else pv*pv)
            v, m = c.valid(symx.qt(std.data[i0]*std.data[i0]) ==
                           symx.qt(want2), label='std follows')
            oth = all(x is y for x, y in zip(getattr(sv, other).flat,
                                             other0))
            if not (good and v == 'held' and oth):
                ok = False
                why = (f"after assigning {nm}: getter ok={good}, std "
                       f"follows={v}, other setting untouched={oth}")
                break
        obs = [ob(f"{what}: array -> scalar -> None -> array -> scalar; "
                  f"getter returns exactly the assigned value, std follows "
                  f"it, the other setting is untouched", 'held' if ok else
                  'cex', group=grp, cls='NRA-small', note=why,
                  key=f"explicit assignment of {what} not honoured",
                  cex=dict(kind='reassign', shape=list(shape), what=what)
                  if not ok else None)]
        # explicit std, then None -> formula again
        sv2, d2, nf2, re2, std2 = build(E, c, shape, 'scalar', None, True)
        sv2.standard_deviation = None
        g = sv2.standard_deviation
        ok2 = g is not None and all(
            c.valid(symx.qt(x*x) == symx.qt(nf2*nf2))[0] == 'held'
            for x in g.data.flat)
        obs.append(ob("standard_deviation = None falls back to the noise "
                      "floor / relative error formula", 'held' if ok2 else
                      'cex', group=grp, cls='NRA-small',
                      key="resetting standard_deviation does not fall back",
                      cex=dict(kind='reassign', shape=list(shape),
                               what='std') if not ok2 else None))
        return obs
    finally:
        uninstall(E, saved)


def case_clean_misfit(case):
    """misfit -> assign new noise floor -> clean -> misfit uses the new
    standard deviation (no stale weights)."""
    shape, what = case
    E = shadow.load()
    c = set_ctx(Ctx(timeout_ms=240000))
    State.OBJECT_ALLOC = True
    saved = install(E)
    grp = f"misfit after reassignment and clean('{what}') shape={shape}"
    try:
        sv, d, nfv, rev, stdv = build(E, c, shape, 'scalar', None, False)

        def newsyn(tag):
            syn = np.empty(shape, dtype=object)
            for i in np.ndindex(*shape):
                syn[i] = Qc.var(f"{tag}{list(i)}")
            return syn
        sim = _Duck()
        sim._misfit = None
        sim._gradient = None
        sim._computed = True
        sim.survey = sv
        sim.data = sv.data
        sim.file_dir = None
        sim._dict_initiate = {}
        sim._dict_efield = {}
        sim._dict_efield_info = {}
        sim._dict_grid = {}
        syn1 = newsyn('s')
        sv.data['synthetic'] = sv.data.observed.copy(
            data=syn1.view(symx.SymArray))
        E.simulations.Simulation.misfit.fget(sim)
        nf2 = Q.var('nf2')
        c.assume(B(nf2.t > 0))
        sv.noise_floor = nf2
        E.simulations.Simulation.clean(sim, what)
        syn2 = newsyn('t')
        sv.data['synthetic'] = sv.data.observed.copy(
            data=syn2.view(symx.SymArray))
        sim._computed = True
        got = E.simulations.Simulation.misfit.fget(sim)
        got = got.item() if isinstance(got, np.ndarray) else got
        want = Q(Fraction(0))
        for i in np.ndindex(*shape):
            want = want + (syn2[i]-d[i]).abs2()/(nf2*nf2)
        want = want/2
        g = Qc._co(got)
        vd, m = c.valid(symx.qt(g.re) == symx.qt(want), label='misfit2')
        return [ob("second misfit uses the newly assigned noise floor", vd,
                   group=grp, cls='NRA-small',
                   key=f"stale weights survive clean('{what}')",
                   cex=dict(kind='clean', shape=list(shape), what=what)
                   if vd == 'cex' else None)]
    finally:
        uninstall(E, saved)


def _duck_sim(sv):
    sim = _Duck()
    sim._misfit = None
    sim._gradient = None
    sim._computed = True
    sim.survey = sv
    sim.data = sv.data
    sim.file_dir = None
    sim._dict_initiate = {}
    sim._dict_efield = {}
    sim._dict_efield_info = {}
    sim._dict_grid = {}
    return sim


def case_survey_reuse(case):
    """A survey that went through one misfit evaluation is given a new noise
    model (or has gaps in its data filled / opened) and is then used by a NEW
    simulation: the misfit must follow the current standard deviation and the
    current set of finite data."""
    shape, what = case
    E = shadow.load()
    c = set_ctx(Ctx(timeout_ms=240000))
    State.OBJECT_ALLOC = True
    saved = install(E)
    grp = f"survey re-used by a new simulation after '{what}' shape={shape}"
    try:
        sv, d, nfv, rev, stdv = build(E, c, shape, 'scalar', None, False)
        gap = (0,)*len(shape)
        if what in ('fill_gap',):
            sv.data.observed.data[gap] = symx.NAN

        def newsyn(tag):
            syn = np.empty(shape, dtype=object)
            for i in np.ndindex(*shape):
                syn[i] = Qc.var(f"{tag}{list(i)}")
            return syn
        syn1 = newsyn('s')
        sv.data['synthetic'] = sv.data.observed.copy(
            data=syn1.view(symx.SymArray))
        simA = _duck_sim(sv)
        E.simulations.Simulation.misfit.fget(simA)
        sv.isfinite                     # (caches its mask)
        sv.finite_data()
        nf_now = nfv
        dd = {i: d[i] for i in np.ndindex(*shape)}
        skip = set()
        if what == 'noise_floor':
            nf_now = Q.var('nf2')
            c.assume(B(nf_now.t > 0))
            sv.noise_floor = nf_now
        elif what == 'std':
            stdn = sym_array('sd2', shape, positive=True)
            sv.standard_deviation = stdn
        elif what == 'fill_gap':
            dd[gap] = Qc.var('filled')
            sv.data.observed.data[gap] = dd[gap]
        elif what == 'open_gap':
            sv.data.observed.data[gap] = symx.NAN
            skip.add(gap)
        if what == 'fill_gap':
            pass
        # a NEW simulation (fresh caches) on the same survey object
        simB = _duck_sim(sv)
        got = E.simulations.Simulation.misfit.fget(simB)
        got = got.item() if isinstance(got, np.ndarray) else got
        want = Q(Fraction(0))
        for i in np.ndindex(*shape):
            if i in skip:
                continue
            if what == 'std':
                w_ = 1/(stdn[i]*stdn[i])
            else:
                w_ = 1/(nf_now*nf_now)
            want = want + (syn1[i]-dd[i]).abs2()*w_
        want = want/2
        g = Qc._co(got)
        vd, m = c.valid(symx.qt(g.re) == symx.qt(want), label='reuse')
        return [ob("misfit of a new simulation on a re-used survey follows "
                   "the current noise model and the currently finite data",
                   vd, group=grp, cls='NRA-small',
                   key=f"misfit on a re-used survey is stale ({what})",
                   cex=dict(kind='reuse', shape=list(shape), what=what)
                   if vd == 'cex' else None)]
    finally:
        uninstall(E, saved)


def case_copy_select(case):
    """copy / to_dict->from_dict / select: equal content, no aliasing,
    exact sub-cube."""
    shape, nf, re, std = case
    E = shadow.load()
    c = set_ctx(Ctx(timeout_ms=240000))
    State.OBJECT_ALLOC = True
    saved = install(E)
    grp = f"copy/select shape={shape} nf={nf} re={re} std={std}"
    obs = []
    try:
        sv, d, nfv, rev, stdv = build(E, c, shape, nf, re, std)
        before = snapshot(sv)
        for nm, mk in (('copy', lambda: sv.copy()),
                       ('to_dict/from_dict', lambda: E.surveys.Survey.
                        from_dict(sv.to_dict(copy=True)))):
            t1 = time.time()
            new = mk()
            v, which, m = same(c, before, snapshot(new))
            v2, which2, m2 = same(c, before, snapshot(sv))
            dat = all(a is b or c.valid(_eqc(a, b))[0] == 'held'
                      for a, b in zip(sv.data.observed.data.flat,
                                      new.data.observed.data.flat))
            # independence: writing into the copy leaves the original
            indep = True
            if isinstance(new.noise_floor, np.ndarray):
                new.noise_floor[(0,)*3] = Q(Fraction(123))
                indep = same(c, before, snapshot(sv))[0] == 'held'
            ok = v == 'held' and v2 == 'held' and dat and indep
            obs.append(ob(f"{nm}: equal noise settings and data, original "
                          f"untouched, no shared arrays", 'held' if ok
                          else 'cex', group=grp, cls='LIN',
                          seconds=time.time()-t1,
                          note=f"copy={v}/{which} orig={v2} data={dat} "
                               f"independent={indep}",
                          key=f"{nm} changes or shares noise settings",
                          cex=dict(kind='copy', shape=list(shape), nf=nf,
                                   re=re, std=std, op=nm) if not ok
                          else None))
        # selection: exact sub-cube
        t1 = time.time()
        skeys = list(sv.sources.keys())
        rkeys = list(sv.receivers.keys())
        fkeys = list(sv.frequencies.keys())
        pick = dict(sources=[skeys[-1]], receivers=[rkeys[0]],
                    frequencies=[fkeys[-1]])
        sub = sv.select(**pick, remove_empty=False)
        idx = (len(skeys)-1, 0, len(fkeys)-1)
        conds = []
        okshape = sub.shape == (1, 1, 1)
        if okshape:
            conds.append(_eqc(sub.data.observed.data[0, 0, 0], d[idx]))
            s_after = snapshot(sub)

            def pick1(x, full):
                if x is None:
                    return None
                if isinstance(x, Q):
                    return x
                return np.broadcast_to(x, shape)[idx]
            exp = dict(nf=pick1(nfv, shape), re=pick1(rev, shape),
                       std=pick1(stdv, shape))
            for k in ('nf', 're', 'std'):
                if (exp[k] is None) != (s_after[k] is None):
                    okshape = False
                elif exp[k] is not None:
                    if len(s_after[k]) != 1:
                        okshape = False
                    else:
                        conds.append(symx.qt(s_after[k][0]) ==
                                     symx.qt(exp[k]))
        v = 'cex'
        if okshape:
            v, m = c.valid(z3.And(*conds), label='select')
        v2 = same(c, before, snapshot(sv))[0]
        obs.append(ob("select(last source, first receiver, last frequency) "
                      "is exactly that datum with its noise floor, relative "
                      "error and std; the original is unchanged", 'held' if
                      v == 'held' and v2 == 'held' else v, group=grp,
                      cls='LIN', seconds=time.time()-t1,
                      key="select does not return the chosen sub-cube / "
                          "its noise settings",
                      cex=dict(kind='select', shape=list(shape), nf=nf,
                               re=re, std=std) if v == 'cex' or v2 != 'held'
                      else None))
        return obs
    finally:
        uninstall(E, saved)


def _eqc(a, b):
    a, b = Qc._co(a), Qc._co(b)
    return z3.And(symx.qt(a.re) == symx.qt(b.re),
                  symx.qt(a.im) == symx.qt(b.im))


def case_misfit(case):
    """Simulation.misfit == 1/2 sum |syn-obs|^2 / std^2."""
    shape, nf, re, std, with_nan = case
    E = shadow.load()
    c = set_ctx(Ctx(timeout_ms=240000))
    State.OBJECT_ALLOC = True
    saved = install(E)
    grp = f"misfit shape={shape} nf={nf} re={re} std={std} nan={with_nan}"
    try:
        nan_at = (0,)*3 if with_nan else None
        sv, d, nfv, rev, stdv = build(E, c, shape, nf, re, std,
                                      nan_at=nan_at)
        syn = np.empty(shape, dtype=object)
        for i in np.ndindex(*shape):
            syn[i] = Qc.var(f"s{list(i)}")
        sv.data['synthetic'] = sv.data.observed.copy(
            data=syn.view(symx.SymArray))
        sim = _Duck()
        sim._misfit = None
        sim._computed = True
        sim.survey = sv
        sim.data = sv.data
        t1 = time.time()
        got = E.simulations.Simulation.misfit.fget(sim)
        got = got.item() if isinstance(got, np.ndarray) else got
        want = Q(Fraction(0))
        for i in np.ndindex(*shape):
            if isinstance(d[i], symx.NaNQ):
                continue
            r = syn[i]-d[i]
            s2 = Q(Fraction(0))
            if std:
                s2 = stdv[i]*stdv[i]
            else:
                if nfv is not None:
                    n = nfv if isinstance(nfv, Q) else np.broadcast_to(
                        nfv, shape)[i]
                    s2 = s2 + n*n
                if rev is not None:
                    rr = rev if isinstance(rev, Q) else np.broadcast_to(
                        rev, shape)[i]
                    s2 = s2 + rr*rr*d[i].abs2()
            want = want + r.abs2()/s2
        want = want/2
        if isinstance(got, symx.NaNQ):
            vd = 'cex'
        else:
            g = Qc._co(got)
            vd, m = c.valid(symx.qt(g.re) == symx.qt(want), label='misfit')
        return [ob("misfit == 1/2 sum over finite observations of "
                   "|d_syn-d_obs|^2 / std^2", vd, group=grp, cls='NRA-small',
                   seconds=time.time()-t1,
                   key=f"misfit formula wrong (nan data: {with_nan})",
                   cex=dict(kind='misfit', shape=list(shape), nf=nf, re=re,
                            std=std, nan=with_nan) if vd == 'cex' else None)]
    finally:
        uninstall(E, saved)


# --------------------------------------------------------------------------
def _real_survey(emg3d, shape, nf, re, std, rng):
    ns, nr, nfq = shape
    src = [emg3d.TxElectricDipole((10.*i, 0, 0, 0, 0)) for i in range(ns)]
    rec = [emg3d.RxElectricPoint((100.*(j+1), 5., 0, 0, 0))
           for j in range(nr)]
    freqs = [1.0+k for k in range(nfq)]
    d = rng.normal(size=shape)+1j*rng.normal(size=shape)

    def par(kind):
        if kind is None:
            return None
        if kind == 'scalar':
            return float(rng.uniform(.1, 1))
        shp = {'full': shape, 'src': (ns, 1, 1), 'rec': (1, nr, 1),
               'freq': (1, 1, nfq)}[kind]
        return rng.uniform(.1, 1, shp)
    kw = {}
    nfv, rev = par(nf), par(re)
    if nfv is not None:
        kw['noise_floor'] = nfv
    if rev is not None:
        kw['relative_error'] = rev
    sv = emg3d.Survey(src, rec, freqs, data=d.copy(), **kw)
    stdv = None
    if std:
        stdv = rng.uniform(.1, 1, shape)
        sv.standard_deviation = stdv.copy()
    return sv, d, nfv, rev, stdv


def _snap_real(sv):
    def cp(x):
        if x is None:
            return None
        return np.array(x.data if hasattr(x, 'data') else x, dtype=float,
                        copy=True)
    std = sv.data['standard_deviation'] if 'standard_deviation' in \
        sv.data.keys() else None
    return dict(nf=cp(sv.noise_floor), re=cp(sv.relative_error), std=cp(std))


def _same_real(a, b):
    for k in a:
        if (a[k] is None) != (b[k] is None):
            return False, k
        if a[k] is not None and (a[k].shape != b[k].shape or
                                 not np.array_equal(a[k], b[k])):
            return False, k
    return True, None


def replay(cex):
    import emg3d
    kind = cex['kind']
    rng = np.random.default_rng(4)
    if kind == 'immutable':
        shape = tuple(cex['shape'])
        sv, d, nfv, rev, stdv = _real_survey(emg3d, shape, cex['nf'],
                                             cex['re'], cex['std'], rng)
        before = _snap_real(sv)
        {'add_noise': lambda: sv.add_noise(),
         'add_noise_gauss_new': lambda: sv.add_noise(
             ntype='gaussian_uncorrelated', add_to='noisy',
             min_amplitude=None),
         'add_noise_corr_offsets': lambda: sv.add_noise(
             ntype='gaussian_correlated', min_offset=150., max_offset=250.,
             mean_noise=0.5),
         'std_getter': lambda: sv.standard_deviation}[cex['op']]()
        ok, which = _same_real(before, _snap_real(sv))
        return not ok, (f"real Survey (nf={cex['nf']}, re={cex['re']}, "
                        f"std={cex['std']}) after {cex['op']}: "
                        + (f"{which} changed: before "
                           f"{before[which].ravel()[:3]} after "
                           f"{_snap_real(sv)[which].ravel()[:3]}"
                           if not ok else "unchanged"))
    if kind == 'reassign':
        shape = tuple(cex['shape'])
        sv, d, nfv, rev, stdv = _real_survey(emg3d, shape, 'full', 'full',
                                             False, rng)
        what = cex['what']
        msgs = []
        if what == 'std':
            sv2, *_ = _real_survey(emg3d, shape, 'scalar', None, True, rng)
            sv2.standard_deviation = None
            g = sv2.standard_deviation
            if g is None or not np.allclose(g.data, sv2.noise_floor, rtol=1e-12, atol=0):
                msgs.append("std=None does not fall back to the formula")
        else:
            for val in (0.25, None, rng.uniform(.1, 1, (shape[0], 1, 1)),
                        0.5):
                setattr(sv, what, val)
                got = getattr(sv, what)
                if val is None:
                    good = got is None
                elif np.ndim(val) == 0:
                    good = np.ndim(got) == 0 and got == val
                else:
                    good = np.ndim(got) == 3 and np.allclose(
                        got, np.broadcast_to(val, shape))
                if not good:
                    msgs.append(f"after {what} = {val!r}: getter returns "
                                f"{np.asarray(got).ravel()[:3]}")
                    break
        return bool(msgs), (f"real Survey reassignment of {what}: " +
                            ('; '.join(msgs) or 'honoured'))
    if kind == 'clean':
        shape = tuple(cex['shape'])
        sv, d, nfv, rev, stdv = _real_survey(emg3d, shape, 'scalar', None,
                                             False, rng)
        sim = _Duck()
        sim._misfit = None
        sim._gradient = None
        sim._computed = True
        sim.survey = sv
        sim.data = sv.data
        sim.file_dir = None
        sim._dict_initiate = {}
        sim._dict_efield = {}
        sim._dict_efield_info = {}
        sim._dict_grid = {}
        sv.data['synthetic'] = sv.data.observed.copy(
            data=rng.normal(size=shape)+0j)
        emg3d.simulations.Simulation.misfit.fget(sim)
        sv.noise_floor = 0.123
        emg3d.simulations.Simulation.clean(sim, cex['what'])
        syn2 = rng.normal(size=shape)+1j*rng.normal(size=shape)
        sv.data['synthetic'] = sv.data.observed.copy(data=syn2)
        sim._computed = True
        got = float(emg3d.simulations.Simulation.misfit.fget(sim))
        want = float(0.5*np.sum(np.abs(syn2-d)**2)/0.123**2)
        return not np.isclose(got, want, rtol=1e-10, atol=0), (
            f"real misfit after noise_floor reassignment and "
            f"clean('{cex['what']}'): {got} vs {want} with the new noise "
            f"floor")
    if kind == 'reuse':
        # through the public API: real Simulation objects, real solves
        what = cex['what']
        grid = emg3d.TensorMesh([np.array([2., 1., 1., 2.])*100]*3, (0, 0, 0))
        src = [emg3d.TxElectricDipole((250., 150., 150., 20., 10.))]
        rec = [emg3d.RxElectricPoint((225., 250., 200., 0., 0.)),
               emg3d.RxElectricPoint((275., 225., 225., 30., 10.))]
        model = emg3d.Model(grid, property_x=rng.uniform(.5, 2,
                                                         grid.shape_cells),
                            mapping='Conductivity')
        data = (rng.normal(size=(1, 2, 1))+1j*rng.normal(size=(1, 2, 1)))*1e-9
        opts = dict(gridding='same', max_workers=1, verb=-1,
                    receiver_interpolation='linear', tqdm_opts=False,
                    solver_opts=dict(tol=1e-8, plain=True, maxit=100))
        d0 = data.copy()
        if what == 'fill_gap':
            d0[0, 0, 0] = np.nan+1j*np.nan
        survey = emg3d.Survey(src, rec, [1.0], data=d0, noise_floor=1e-10)
        float(emg3d.Simulation(survey, model, **opts).misfit)
        survey.isfinite
        kw = dict(noise_floor=1e-10)
        dnow = d0.copy()
        if what == 'noise_floor':
            survey.noise_floor = 2e-10
            kw = dict(noise_floor=2e-10)
        elif what == 'std':
            sd = rng.uniform(1, 3, (1, 2, 1))*1e-10
            survey.standard_deviation = sd
        elif what == 'fill_gap':
            survey.data.observed.data[0, 0, 0] = data[0, 0, 0]
            dnow = data.copy()
        elif what == 'open_gap':
            survey.data.observed.data[0, 0, 0] = np.nan+1j*np.nan
            dnow[0, 0, 0] = np.nan+1j*np.nan
        got = float(emg3d.Simulation(survey, model, **opts).misfit)
        fresh = emg3d.Survey(src, rec, [1.0], data=dnow, **kw)
        if what == 'std':
            fresh.standard_deviation = sd
        want = float(emg3d.Simulation(fresh, model, **opts).misfit)
        return not np.isclose(got, want, rtol=1e-8, atol=0), (
            f"real Simulation on a survey re-used after '{what}': misfit "
            f"{got:.6e} vs {want:.6e} of a fresh survey with the same "
            f"content")
    if kind in ('copy', 'select', 'sigma', 'misfit'):
        shape = tuple(cex.get('shape') or cex['case'][0])
        nf = cex.get('nf', cex.get('case', [0, None])[1])
        re = cex.get('re', cex.get('case', [0, 0, None])[2])
        std = cex.get('std', cex.get('case', [0, 0, 0, False])[3])
        sv, d, nfv, rev, stdv = _real_survey(emg3d, shape, nf, re, std, rng)
        msgs = []
        # sigma formula
        want2 = np.zeros(shape)
        if std:
            want = stdv
        else:
            if nfv is not None:
                want2 = want2 + np.broadcast_to(nfv, shape)**2
            if rev is not None:
                want2 = want2 + (np.broadcast_to(rev, shape)*np.abs(d))**2
            want = np.sqrt(want2)
        got = sv.standard_deviation
        if got is None:
            if nf is not None or re is not None or std:
                msgs.append("standard_deviation is None")
        elif not np.allclose(got.data, want, rtol=1e-12, atol=0):
            msgs.append("standard_deviation != sqrt(nf^2+(re|d|)^2)")
        before = _snap_real(sv)
        for nm, mk in (('copy', lambda: sv.copy()),
                       ('dict', lambda: emg3d.Survey.from_dict(
                           sv.to_dict(copy=True)))):
            new = mk()
            ok, which = _same_real(before, _snap_real(new))
            if not ok:
                msgs.append(f"{nm}: {which} differs")
            if isinstance(new.noise_floor, np.ndarray):
                new.noise_floor[(0,)*3] = 123.
                if not _same_real(before, _snap_real(sv))[0]:
                    msgs.append(f"{nm}: shares the noise floor array")
        sk, rk, fk = (list(sv.sources), list(sv.receivers),
                      list(sv.frequencies))
        sub = sv.select(sources=[sk[-1]], receivers=[rk[0]],
                        frequencies=[fk[-1]], remove_empty=False)
        idx = (len(sk)-1, 0, len(fk)-1)
        if sub.shape != (1, 1, 1) or sub.data.observed.data[0, 0, 0] != \
                d[idx]:
            msgs.append("select: wrong datum")
        else:
            for nm, full in (('noise_floor', nfv), ('relative_error', rev)):
                g = getattr(sub, nm)
                if full is None:
                    continue
                w = full if np.ndim(full) == 0 else \
                    np.broadcast_to(full, shape)[idx]
                if not np.allclose(np.asarray(g).ravel(), w, rtol=1e-12, atol=0):
                    msgs.append(f"select: {nm} {np.asarray(g).ravel()} vs "
                                f"{w}")
            if std and not np.allclose(
                    sub.standard_deviation.data.ravel(), stdv[idx]):
                msgs.append("select: std wrong")
        if kind == 'misfit':
            syn = rng.normal(size=shape)+1j*rng.normal(size=shape)
            if cex.get('nan'):
                sv.data.observed.data[(0,)*3] = np.nan+1j*np.nan
            sv.data['synthetic'] = sv.data.observed.copy(data=syn)
            sim = _Duck()
            sim._misfit = None
            sim._computed = True
            sim.survey = sv
            sim.data = sv.data
            got = float(emg3d.simulations.Simulation.misfit.fget(sim))
            obs_ = sv.data.observed.data
            fin = np.isfinite(obs_)
            stdn = sv.standard_deviation.data
            wantm = 0.5*np.sum(np.abs(syn[fin]-obs_[fin])**2/stdn[fin]**2)
            if not np.isclose(got, wantm, rtol=1e-10, atol=0):
                msgs.append(f"misfit {got} vs {wantm}")
        return bool(msgs), (f"real Survey ({shape}, nf={nf}, re={re}, "
                            f"std={std}): " + ('; '.join(msgs[:3]) or
                                               'all clauses hold'))
    return False, 'unknown kind'


QUICK_COMBOS = [('scalar', 'scalar', False), ('full', None, False),
                ('src', 'rec', False), (None, 'full', False),
                ('freq', 'scalar', False), ('scalar', None, True),
                ('full', 'full', True), (None, None, False)]


def _dispatch(job):
    return globals()[job[0]](job[1])


def main(tier):
    shadow.load()
    warnings.filterwarnings('ignore', category=RuntimeWarning)
    run = Run(PID, tier, design_ref='DESIGN.md §6 C13')
    run.functions.update(shadow.func_lines(
        'emg3d/surveys.py', ['Survey', 'random_noise']))
    run.functions.update(shadow.func_lines('emg3d/simulations.py',
                                           ['misfit']))
    run.extra['hashes'] = {k: v for k, v in shadow.hashes().items()
                           if k in ('emg3d/surveys.py',
                                    'emg3d/simulations.py')}
    kinds = [None, 'scalar', 'full', 'src', 'rec', 'freq']
    if tier == 'quick':
        shapes = [(2, 2, 1)]
        combos = list(QUICK_COMBOS)
    else:
        shapes = [(1, 1, 1), (2, 2, 1), (2, 1, 2)]
        combos = [(a, b, s) for a in kinds for b in kinds
                  for s in (False, True) if not (s and a is None and
                                                 b is None and False)]
    jobs = []
    for shp in shapes:
        for nf, re, std in combos:
            jobs.append(('case_sigma', (shp, nf, re, std)))
            if nf is None and re is None and not std:
                continue
            jobs.append(('case_copy_select', (shp, nf, re, std)))
            # the misfit identity is a nonlinear (NRA) query whose cost
            # grows with the number of data: all parameter forms on the
            # one-datum shape, the quick tier's forms on the larger ones
            if tier == 'quick' or shp == (1, 1, 1) or \
                    (nf, re, std) in QUICK_COMBOS:
                jobs.append(('case_misfit', (shp, nf, re, std, False)))
            for op in OPS:
                if tier == 'quick' and op in ('add_noise_gauss_new',
                                              'add_noise_corr_offsets') and \
                        (nf, re) not in (('full', None), ('src', 'rec'),
                                         ('scalar', 'scalar')):
                    continue
                jobs.append(('case_immutable', (shp, nf, re, std, op)))
    # (single scenarios on the 2x2x1 survey in both tiers; a 1x1x1 survey
    # hands out 0-d values, which the scenario harnesses do not index)
    shapes = [(2, 2, 1)] + [x for x in shapes if x != (2, 2, 1)]
    jobs.append(('case_misfit', (shapes[0], 'scalar', 'scalar', False,
                                 True)))
    for w in ('noise_floor', 'relative_error'):
        jobs.append(('case_reassign', (shapes[0], w)))
    for w in ('computed', 'all'):
        jobs.append(('case_clean_misfit', (shapes[0], w)))
    for w in ('noise_floor', 'std', 'fill_gap', 'open_gap'):
        jobs.append(('case_survey_reuse', (shapes[0], w)))
    # the nonlinear misfit queries each in a fresh worker process (20-30 s
    # there; > 240 s = unknown in a worker that ran other cases before)
    mis = [j for j in jobs if j[0] == 'case_misfit']
    obs = pmap(_dispatch, mis, fresh=True)
    obs += pmap(_dispatch, [j for j in jobs if j[0] != 'case_misfit'])
    run.add(obs)
    run.bounds = dict(shapes=shapes, parameter_forms=combos,
                      operations=list(OPS)+['copy', 'to_dict/from_dict',
                                            'select'])
    run.assumptions = [
        "exact real/complex arithmetic; |z| and sqrt are fresh variables "
        "with s*s = x, s >= 0",
        "random_noise draws are arbitrary symbolic arrays; exp(i u) is a "
        "unit-modulus pair",
        "misfit is evaluated on a duck-typed carrier of the survey data "
        "(the property getter's own code), with and without one NaN datum",
    ]
    run.stubs = ["numpy.random.default_rng -> symbolic generator",
                 "builtins.float inside emg3d.surveys -> symbolic-aware"]
    run.outside = ["survey shapes larger than listed", "file formats "
                   "(C17)", "floating-point"]
    run.explanation = (
        "Survey objects are built on xarray Datasets of solver terms; the "
        "getters, add_noise (all noise types and cuts), select, copy and "
        "dict conversion are executed and z3 decides that every entry of "
        "noise floor, relative error and explicit standard deviation equals "
        "its value before, that arrays handed out earlier are untouched, "
        "that std follows the documented formula and that the misfit is "
        "half the weighted squared residual.")
    for o in obs[:3]:
        run.sample(dict(group=o['group'], label=o['label'][:200],
                        verdict=o['verdict'], note=o['note']))
    return run.finish(replay)
