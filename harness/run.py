"""Entry point: python -m harness.run <id> [--tier quick|thorough]."""
import os
import sys
import argparse
import importlib
import traceback


def main():
    ap = argparse.ArgumentParser()
    ap.add_argument('pid')
    ap.add_argument('--tier', default=os.environ.get('VERIF_TIER', 'quick'),
                    choices=['quick', 'thorough'])
    ap.add_argument('--replay', default=None)
    a = ap.parse_args()
    pid = a.pid.upper()
    try:
        mod = importlib.import_module(f'harness.{pid.lower()}')
    except ModuleNotFoundError:
        print(f"no harness for {pid}")
        return 2
    if a.replay:
        import json
        with open(a.replay) as f:
            rec = json.load(f)
        ok, desc = mod.replay(rec['cex'])
        print(("REPRODUCED " if ok else "NOT-REPRODUCED ") + desc)
        if ok:
            print(f"VIOLATION property={pid} replay={a.replay}")
        return 1 if ok else 0
    try:
        return mod.main(a.tier)
    except BaseException as e:   # noqa
        traceback.print_exc()
        print(f"HARNESS-ERROR property={pid} {e!r}")
        return 2


if __name__ == '__main__':
    sys.exit(main())
