"""C11 — survey results do not depend on worker count, scheduling or
file-based mode (bookkeeping core).

Real code (shadow): _multiprocessing.process_map (all four branches),
_multiprocessing.solve (dict- and file-based input/output), simulations.
Simulation._compute / _bcompute / jvec / gradient / misfit / _dict_get /
_load / _data_or_file / get_efield, io.save / io.load with their
serialisation layers (only the HDF5 back end _hdf5_dump/_hdf5_load is an
in-memory contract stub).

Environment model (symx.cfmodel, part of the claim): a process pool ships
arguments and results by pickling (deep copies; a task never shares objects
with the parent), tasks complete in an ARBITRARY order (symbolic completion
times t_i; each comparison forks the explorer, so every permutation is a
path), Executor.map returns results in submission order, as_completed in
completion order; tqdm.contrib.concurrent.process_map == list(ex.map(...)).
max_workers is a symbolic integer in [1, 16]: the code's own `max_workers > 1`
decides between the in-process and the pool branch.

emg3d.solve is ONE uninterpreted function shared by all runs (simx).
Decided by z3 on every path: synthetic data, every electric field, the
solver-info slot of every source-frequency pair, misfit, gradient and J v
equal those of the sequential in-memory reference run (max_workers = 1, no
tqdm); J^T w likewise, and a repeated compute() changes nothing.
"""
import os
import time
import shutil
import tempfile
import warnings
import functools
import itertools

import numpy as np
import z3

import symx
from symx import Q, Qc, Z, B, Ctx, set_ctx, sym_array, State, shadow, \
    Inconclusive, cfmodel
from . import simx, c07, c13
from .common import ob, Run, pmap

PID = 'C11'
ANISO, MAPPING = 'VTI', 'Resistivity'
SIM_KW = dict(solver_opts=dict(tol=1e-6, tol_gradient=1e-3))
FREQS = [1.0, 2.0, 4.0]


class SymScheduler:
    """Completion order from symbolic, pairwise distinct completion times;
    only the `study`-th pool run of the scenario is scheduled symbolically
    (the others complete in reverse submission order), to keep the number of
    paths at n! instead of (n!)^3."""

    def __init__(self, c, study):
        self.c, self.study = c, study
        self.nrun = 0
        self.orders = []

    def ship(self, obj):
        return cfmodel.deep_ship(obj)

    def order(self, n):
        k = self.nrun
        self.nrun += 1
        if isinstance(self.study, tuple) and k == 0:
            # ('all', j): first pool run completes in the j-th permutation
            # (the 'all' case split into n! independent jobs)
            import itertools
            o = list(list(itertools.permutations(range(n)))[self.study[1]])
            self.orders.append(o)
            return o
        if not isinstance(self.study, tuple) and self.study != 'all' \
                and k != self.study:
            o = list(range(n))[::-1]
            self.orders.append(o)
            return o
        ts = [Z.var(f"t{k}_{i}") for i in range(n)]
        for i in range(n):
            for j in range(i):
                self.c.path_assume(B(ts[i].t != ts[j].t))

        def cmp(i, j):
            return -1 if ts[i] < ts[j] else 1
        o = sorted(range(n), key=functools.cmp_to_key(cmp))
        self.orders.append(o)
        return o


class FS:
    """In-memory file system for the HDF5 back end (contract of
    _hdf5_dump/_hdf5_load: what is dumped under a name is what is loaded;
    checked on real files by C17)."""

    def __init__(self):
        self.files = {}
        self.log = []


def install_fs(E, fs):
    io = E.io
    saved = [(io, '_hdf5_dump', io._hdf5_dump), (io, '_hdf5_load',
                                                  io._hdf5_load)]

    def dump(fname, data, compression=None, **kw):
        fs.files[os.path.abspath(fname)] = cfmodel.deep_ship(data)
        fs.log.append(('w', os.path.basename(fname)))

    def load(fname, **kw):
        fs.log.append(('r', os.path.basename(fname)))
        return cfmodel.deep_ship(fs.files[os.path.abspath(fname)])
    io._hdf5_dump, io._hdf5_load = dump, load
    return saved


def make_survey(E, c, nsrc, nfreq):
    src = [E.electrodes.TxElectricDipole((2.5+0.25*i, 1.5, 1.5, 20., 10.))
           for i in range(nsrc)]
    rec = [E.electrodes.RxElectricPoint((2.25+0.5*i, 2.5-0.25*i, 2.0+0.25*i,
                                         30.*i, 10.*i)) for i in range(2)]
    shape = (nsrc, 2, nfreq)
    d = np.empty(shape, dtype=object)
    for i in np.ndindex(*shape):
        d[i] = Qc.var(f"d{list(i)}")
    nfq = Q.var('nf')
    c.assume(B(nfq.t > 0))
    return E.surveys.Survey(src, rec, FREQS[:nfreq],
                            data=d.view(symx.SymArray), noise_floor=nfq)


class _SymP:
    """discretize's volume-average matrix applied to symbolic vectors (the
    matrix itself is concrete: grids are concrete)."""

    def __init__(self, P, transposed=False):
        self.P = P.tocsr()
        self.tr = transposed

    @property
    def T(self):
        return _SymP(self.P.T, not self.tr)

    def __mul__(self, v):
        v = np.asarray(v, dtype=object)
        P = self.P
        out = np.empty(P.shape[0], dtype=object)
        for i in range(P.shape[0]):
            acc = Q(0)
            for p_ in range(P.indptr[i], P.indptr[i+1]):
                acc = acc + v[P.indices[p_]]*float(P.data[p_])
            out[i] = acc
        return out.view(symx.SymArray)


def build(E, c, W, nsrc, nfreq, max_workers, file_dir, gridding='same'):
    real_pm = E._multiprocessing.process_map
    keep = []
    saved = simx.install(E, W, keep)
    E._multiprocessing.process_map = real_pm      # the REAL dispatcher
    sv13 = c13.install(E)
    grid = simx.make_grid(E)
    sv = make_survey(E, c, nsrc, nfreq)
    mapping = MAPPING if gridding == 'same' else 'LgConductivity'
    model, vals = simx.make_model(E, c, grid, ANISO, mapping)
    kw = dict(SIM_KW)
    if file_dir:
        kw['file_dir'] = file_dir
    if gridding in ('dict', 'dict1'):
        # source-dependent computational grids of DIFFERENT size: the
        # first source gets the smaller one ('dict1': every pair is computed
        # on the smaller grid, i.e. consecutive tasks share model AND grid)
        small = E.meshes.TensorMesh([np.array([2., 2., 2.]),
                                     np.array([1., 2., 2.]),
                                     np.array([1., 2., 1.])], (0., 0., 0.))
        srcs, freqs = list(sv.sources), list(sv.frequencies)
        kw['gridding_opts'] = {s_: {f_: (small if i == 0 or
                                         gridding == 'dict1' else grid)
                                    for f_ in freqs}
                               for i, s_ in enumerate(srcs)}
        gridding = 'dict'

    # discretize's volume-average matrix applied to symbolic vectors (used
    # for the gradient whenever a computational grid is not the model grid)
    import discretize
    real_va = discretize.utils.volume_average
    saved.append((E.maps.discretize.utils, 'volume_average', real_va))
    E.maps.discretize.utils.volume_average = \
        lambda og, ng, *a, **k: _SymP(real_va(og, ng, *a, **k))
    sim = E.simulations.Simulation(sv, model, gridding=gridding,
                                   max_workers=max_workers,
                                   receiver_interpolation='linear', verb=0,
                                   tqdm_opts=False, **kw)
    return dict(saved=saved, sv13=sv13, sim=sim, keep=keep)


def teardown(E, X):
    simx.uninstall(X['saved'])
    c13.uninstall(E, X['sv13'])


def scenario(sim, vec, repeat=True):
    """The public results of one simulation run."""
    out = {}
    sim.compute()
    out['synthetic'] = list(sim.data.synthetic.data.flat)
    for s_, f_ in itertools.product(sim.survey.sources,
                                    sim.survey.frequencies):
        out[f'efield {s_} {f_}'] = list(np.asarray(
            sim.get_efield(s_, f_).field, dtype=object).flat)
        info = sim.get_efield_info(s_, f_)
        out[f'info {s_} {f_}'] = [info['tol']]
    mis = sim.misfit
    out['misfit'] = [mis.item() if isinstance(mis, np.ndarray) else mis]
    out['gradient'] = list(np.asarray(sim.gradient, dtype=object).flat)
    out['jvec'] = list(np.asarray(sim.jvec(vec), dtype=object).flat)
    wv = np.empty(sim.survey.shape, dtype=object)
    for i in np.ndindex(*sim.survey.shape):
        wv[i] = Qc.var(f"w{list(i)}")
    out['jtvec'] = list(np.asarray(sim.jtvec(wv.view(symx.SymArray)),
                                   dtype=object).flat)
    if repeat:
        sim.compute()
        out['synthetic (repeated compute)'] = list(
            sim.data.synthetic.data.flat)
        out['gradient (after repeated compute)'] = list(np.asarray(
            sim.gradient, dtype=object).flat)
        # in-place update of the model on the same objects, then again
        newv = sym_array('upd', (sim.model.shape[1], sim.model.shape[2]),
                         positive=True)
        sim.model.property_x[0, :, :] = newv
        sim.clean('computed')
        sim.compute()
        out['synthetic (after an in-place model update)'] = list(
            sim.data.synthetic.data.flat)
    return out


def _eq(c, x, y):
    nx = isinstance(x, symx.NaNQ) or (isinstance(x, (float, complex))
                                      and x != x)
    ny = isinstance(y, symx.NaNQ) or (isinstance(y, (float, complex))
                                      and y != y)
    if nx or ny:
        return nx and ny
    if isinstance(x, (int, float)) and isinstance(y, (int, float)):
        return x == y
    x, y = Qc._co(x), Qc._co(y)
    if symx.qt(x.re).eq(symx.qt(y.re)) and symx.qt(x.im).eq(symx.qt(y.im)):
        return True
    return c.valid(c07.eqc(x, y), label='cmp')[0] == 'held'


def differs(c, got, want):
    for k in want:
        if k not in got or len(got[k]) != len(want[k]):
            return k+' (shape)'
        for x, y in zip(got[k], want[k]):
            if not _eq(c, x, y):
                return k.split(' (')[0].split(' Tx')[0].split(' f-')[0]
    return None


def case_mode(case):
    """case = (nsrc, nfreq, tqdm on/off, file mode on/off, study run)."""
    nsrc, nfreq, use_tqdm, use_files, study = case[:5]
    is_all = study == 'all' or isinstance(study, tuple)
    gridding = case[5] if len(case) > 5 else 'same'
    E = shadow.load()
    c = set_ctx(Ctx(timeout_ms=60000))
    State.OBJECT_ALLOC = True
    warnings.filterwarnings('ignore')
    grp = (f"{nsrc} sources x {nfreq} frequencies, tqdm={use_tqdm}, "
           f"files={use_files}, symbolic schedule of pool run #{study}" +
           (", source-dependent grids of different size"
            if gridding != 'same' else ""))
    W = simx.World()
    mp = E._multiprocessing
    tq_model = mp.tqdm if mp.tqdm is not None else cfmodel.TqdmModel
    tmp = tempfile.mkdtemp(prefix='c11.v1_')
    obs = []
    t0 = time.time()
    vshape = (2, 4, 4, 3)
    try:
        # ---- reference: sequential, in memory, no progress bar ---------
        mp.tqdm = None
        cfmodel.SCHED[0] = None
        X = build(E, c, W, nsrc, nfreq, 1, None, gridding)
        try:
            vec = sym_array('v', vshape)
            want = scenario(X['sim'], vec)
        finally:
            teardown(E, X)
        if c.stats['forks']:
            return [ob("harness: reference run forked", 'error', group=grp)]
        ref_calls = sorted((cc['key'], cc['tol'], cc['guess'] is None,
                            cc['guess'] or 0) for cc in W.calls)

        # ---- all schedules / worker counts ------------------------------
        mp.tqdm = tq_model if use_tqdm else None
        seen_orders, branches = set(), set()

        def run():
            mw = Z.var('max_workers')
            c.path_assume(B(z3.And(mw.t >= 1, mw.t <= 16)))
            sched = SymScheduler(c, study)
            cfmodel.SCHED[0] = sched
            del cfmodel.LOG[:]
            fs = FS()
            fsaved = install_fs(E, fs) if use_files else []
            ncall0 = len(W.calls)
            X = build(E, c, W, nsrc, nfreq, mw, tmp if use_files else None,
                      gridding)
            try:
                got = scenario(X['sim'], sym_array('v', vshape))
            finally:
                teardown(E, X)
                for m_, n_, v_ in fsaved:
                    setattr(m_, n_, v_)
                cfmodel.SCHED[0] = None
            pools = sum(1 for e in cfmodel.LOG if e[0] == 'pool')
            got['__solver_inputs__'] = sorted(
                (cc['key'], cc['tol'], cc['guess'] is None, cc['guess'] or 0)
                for cc in W.calls[ncall0:])
            return got, sched.orders, pools, len(fs.log)

        npaths = 0
        for (got, orders, pools, nio), pc, trace in c.explore(
                run, budget_s=9000):
            npaths += 1
            t1 = time.time()
            calls_got = got.pop('__solver_inputs__')
            d = differs(c, got, want)
            if d is None and calls_got != ref_calls:
                d = ("solver inputs (model, source field, tolerance, "
                     "initial guess)")
            par = pools > 0
            branches.add(par)
            if is_all:
                oshow = [o for o in orders]
                okey = tuple(map(tuple, orders if isinstance(study, tuple)
                                 else orders[:3]))
            else:
                oshow = orders[study] if len(orders) > study else []
                okey = tuple(oshow)
            if par and oshow:
                seen_orders.add(okey)
            desc = (f"pool, completion order {oshow}" if par and oshow
                    else "in-process (max_workers=1)")
            if use_files and nio == 0:
                obs.append(ob("file mode exchanges fields through files",
                              'error', group=grp, note="no file traffic"))
            obs.append(ob(
                f"{desc}: data, fields, info slots, misfit, gradient, J v "
                f"and a repeated compute equal the sequential in-memory "
                f"reference (any interpretation of Solve)",
                'cex' if d else 'held', group=grp, cls='LIN',
                seconds=time.time()-t1,
                key=(f"{d} depends on execution mode"
                     if d else None),
                cex=dict(kind='mode', what=d, nsrc=nsrc, nfreq=nfreq,
                         tqdm=use_tqdm, files=use_files, parallel=par,
                         gridding=gridding,
                         order=[int(i) for i in (
                             (oshow[0] if is_all else oshow)
                             if par and oshow else [])],
                         study='all' if is_all else study)
                if d else None))
        ntask = nsrc*nfreq
        import math
        if isinstance(study, tuple):
            # every pool run of the scenario but the first is symbolic
            npool = max([len(k) for k in seen_orders] or [1])
            nexp = math.factorial(ntask)**(npool-1)
        else:
            nexp = math.factorial(ntask)**(3 if is_all else 1)
        ok = (True in branches and False in branches and
              len(seen_orders) == nexp)
        obs.append(ob(
            f"reachability: in-process and pool branch both reached, all "
            f"{nexp} completion orders of {ntask} tasks "
            f"explored ({len(seen_orders)} seen, {npaths} paths)",
            'twin_sat' if ok else 'twin_unsat', group=grp, cls='LIN',
            seconds=c.stats['solver_s'],
            note=f"case wall {time.time()-t0:.1f}s"))
    except Inconclusive as e:
        obs.append(ob("exploration budget", 'unknown', group=grp,
                      note=str(e)))
    finally:
        mp.tqdm = tq_model
        cfmodel.SCHED[0] = None
        shutil.rmtree(tmp, ignore_errors=True)
    return obs


# --------------------------------------------------------------------------
# Replay helper: force a completion order in a REAL process pool by giving
# the tasks different run times (workers are forked, so they inherit this
# module and the shared counter; the wrapper is pickled by reference).
import multiprocessing as _mpx      # noqa: E402
_CNT = _mpx.Value('i', 0)
_DELAYS = [0.0]
_REAL_SOLVE = [None]


def _delayed_solve(inp):
    with _CNT.get_lock():
        k = _CNT.value
        _CNT.value += 1
    time.sleep(_DELAYS[k % len(_DELAYS)])
    return _REAL_SOLVE[0](inp)


def replay(cex):
    """Real package, real process pool, real files: compare the execution
    mode of the counterexample with the sequential in-memory run."""
    if cex.get('kind') == 'slots':
        return replay_slots(cex)
    import emg3d
    from emg3d import _multiprocessing as _mp
    warnings.filterwarnings('ignore')
    nsrc, nfreq = cex['nsrc'], cex['nfreq']
    rng = np.random.default_rng(7)
    grid = emg3d.TensorMesh([np.array([2., 1., 1., 2.])*100,
                             np.array([1., 1., 2., 1.])*100,
                             np.array([1., 2., 1.])*100], (0, 0, 0))
    # differences in the solver's INPUT (e.g. a missing warm start) show at
    # tolerance level only: use a grid on which the iteration does not
    # stagnate at machine precision, and compare bit by bit
    inputs = str(cex.get('what', '')).startswith('solver inputs') and \
        cex.get('gridding', 'same') == 'same'
    if inputs:
        hh = np.array([2., 1., 1., 2., 2., 1., 1., 2.])*50
        grid = emg3d.TensorMesh([hh, hh, hh[:4]*2], (0, 0, 0))
    so = dict(tol=1e-5, tol_gradient=1e-4, maxit=50) if inputs else \
        dict(tol=1e-8, tol_gradient=1e-5, plain=True, maxit=100)
    src = [emg3d.TxElectricDipole((250.+25*i, 150., 150., 20., 10.))
           for i in range(nsrc)]
    rec = [emg3d.RxElectricPoint((225.+50*i, 250.-25*i, 200.+25*i, 30.*i,
                                  10.*i)) for i in range(2)]
    data = (rng.normal(size=(nsrc, 2, nfreq)) +
            1j*rng.normal(size=(nsrc, 2, nfreq)))*1e-9
    px = rng.uniform(.5, 2, grid.shape_cells)
    pz = rng.uniform(.5, 2, grid.shape_cells)
    vec = rng.normal(size=(2,)+tuple(grid.shape_cells))
    wvec = rng.normal(size=(nsrc, 2, nfreq))+1j*rng.normal(size=(nsrc, 2,
                                                                  nfreq))

    def run(max_workers, file_dir, tq):
        survey = emg3d.Survey(src, rec, FREQS[:nfreq], data=data.copy(),
                              noise_floor=1e-10)
        model = emg3d.Model(grid, property_x=px.copy(), property_z=pz.copy(),
                            mapping=MAPPING)
        kw = dict(file_dir=file_dir) if file_dir else {}
        gridding = cex.get('gridding', 'same')
        if gridding in ('dict', 'dict1'):
            small = emg3d.TensorMesh([np.array([2., 2., 2.])*100,
                                      np.array([1., 2., 2.])*100,
                                      np.array([1., 2., 1.])*100], (0, 0, 0))
            kw['gridding_opts'] = {
                s_: {f_: (small if i == 0 or gridding == 'dict1' else grid)
                     for f_ in survey.frequencies}
                for i, s_ in enumerate(survey.sources)}
            gridding = 'dict'
        sim = emg3d.Simulation(
            survey, model, gridding=gridding, max_workers=max_workers,
            verb=0,
            receiver_interpolation='linear', tqdm_opts=False,
            solver_opts=dict(so), **kw)
        old = _mp.tqdm
        if not tq:
            _mp.tqdm = None
        old_solve = _mp.solve
        if max_workers > 1 and cex.get('order'):
            # task order[r] completes r-th: delay grows with its rank
            order = cex['order']
            _DELAYS[:] = [0.0]*len(order)
            for r, task in enumerate(order):
                _DELAYS[task] = 0.4*r
            _CNT.value = 0
            _REAL_SOLVE[0] = old_solve
            _mp.solve = _delayed_solve
        try:
            sim.compute()
            out = dict(synthetic=sim.data.synthetic.data.copy())
            for s_, f_ in itertools.product(survey.sources,
                                            survey.frequencies):
                out[f'efield {s_} {f_}'] = sim.get_efield(s_, f_).field.copy()
                out[f'info {s_} {f_}'] = np.array(
                    [sim.get_efield_info(s_, f_)['tol']])
            out['misfit'] = np.array([float(sim.misfit)])
            out['gradient'] = np.array(sim.gradient)
            out['jvec'] = np.array(sim.jvec(vec))
            out['jtvec'] = np.array(sim.jtvec(wvec))
            sim.compute()
            out['synthetic (repeated compute)'] = \
                sim.data.synthetic.data.copy()
            for s_, f_ in itertools.product(survey.sources,
                                            survey.frequencies):
                out[f'efield (repeated compute) {s_} {f_}'] = \
                    sim.get_efield(s_, f_).field.copy()
            # re-compute after a model change WITHOUT clean: the existing
            # fields are the solver's initial guess (warm start)
            sim.model.property_x[1, :, :] *= 1.1
            sim.compute()
            for s_, f_ in itertools.product(survey.sources,
                                            survey.frequencies):
                out[f'efield (re-computed, warm start) {s_} {f_}'] = \
                    sim.get_efield(s_, f_).field.copy()
            sim.model.property_x[0, :, :] = 1.2345
            sim.clean('computed')
            sim.compute()
            out['synthetic (after an in-place model update)'] = \
                sim.data.synthetic.data.copy()
        finally:
            _mp.tqdm = old
            _mp.solve = old_solve
        return out
    tmp = tempfile.mkdtemp(prefix='c11r.v1_')
    try:
        want = run(1, None, False)
        # real pool with one worker per task; the completion order of the
        # counterexample is forced by run times (_delayed_solve)
        msgs = []
        for mw in ([max(2, nsrc*nfreq)] if cex['parallel'] else [1]):
            try:
                got = run(mw, tmp if cex['files'] else None, cex['tqdm'])
            except Exception as e:     # noqa
                msgs.append(f"max_workers={mw}: raised {e!r}"[:200])
                continue
            for k in want:
                a, b = got[k], want[k]
                exact = str(cex.get('what', '')).startswith(
                    'solver inputs') and 'efield' in k
                if a.shape != b.shape or (
                        not np.array_equal(a, b, equal_nan=True) if exact
                        else not np.allclose(
                            a, b, rtol=1e-6, atol=1e-9*np.abs(b).max(),
                            equal_nan=True)):
                    msgs.append(f"max_workers={mw}: {k} differs from the "
                                f"sequential in-memory run")
                    break
    finally:
        shutil.rmtree(tmp, ignore_errors=True)
    return bool(msgs), ("real Simulation, execution mode "
                        f"(parallel={cex['parallel']}, files={cex['files']},"
                        f" tqdm={cex['tqdm']}): " +
                        ('; '.join(msgs[:3]) or 'identical'))


def case_slots(case):
    """Absolute slot oracle on the sequential in-memory run: every
    source-frequency slot holds the result of ITS OWN task."""
    nsrc, nfreq = case
    E = shadow.load()
    c = set_ctx(Ctx(timeout_ms=60000))
    State.OBJECT_ALLOC = True
    warnings.filterwarnings('ignore')
    grp = f"slot oracle, {nsrc} sources x {nfreq} frequencies"
    W = simx.World()
    mp = E._multiprocessing
    tq_model = mp.tqdm if mp.tqdm is not None else cfmodel.TqdmModel
    mp.tqdm = None
    cfmodel.SCHED[0] = None
    obs = []
    X = build(E, c, W, nsrc, nfreq, 1, None)
    try:
        sim = X['sim']
        sim.compute()
        g = sim.gradient      # noqa  (fills the back-propagation slots)
        usolve = mp.solver.solve
        usolve_source = mp.solver.solve_source
        for s_, f_ in itertools.product(sim.survey.sources,
                                        sim.survey.frequencies):
            t1 = time.time()
            want, _ = usolve_source(
                model=sim.model, source=sim.survey.sources[s_],
                frequency=sim.survey.frequencies[f_], tol=sim.tol_forward)
            got = sim._dict_get('efield', s_, f_)
            bad = None
            if not all(_eq(c, a, b) for a, b in zip(got.field, want.field)):
                bad = 'efield'
            elif sim._dict_get('efield_info', s_, f_)['tol'] != \
                    sim.tol_forward:
                bad = 'efield_info'
            else:
                resp = sim._get_responses(s_, f_, want)
                stored = sim.data.synthetic.loc[s_, :, f_].data
                if not all(_eq(c, a, b) for a, b in zip(stored, resp)):
                    bad = 'synthetic'
            if bad is None:
                wantb, _ = usolve(model=sim.model,
                                  sfield=sim._get_rfield(s_, f_),
                                  tol=sim.tol_gradient)
                gotb = sim._dict_get('bfield', s_, f_)
                if not all(_eq(c, a, b) for a, b in zip(gotb.field,
                                                        wantb.field)):
                    bad = 'bfield'
                elif sim._dict_get('bfield_info', s_, f_)['tol'] != \
                        sim.tol_gradient:
                    bad = 'bfield_info'
            obs.append(ob(
                f"slot ({s_}, {f_}): efield == Solve(model, its source, "
                f"its frequency, tol), info and synthetic data belong to "
                f"it, bfield == Solve(model, its residual source, "
                f"tol_gradient)", 'cex' if bad else 'held', group=grp,
                cls='LIN', seconds=time.time()-t1,
                key=f"{bad} slot holds another task's result" if bad
                else None,
                cex=dict(kind='slots', what=bad, nsrc=nsrc, nfreq=nfreq)
                if bad else None))
    finally:
        teardown(E, X)
        mp.tqdm = tq_model
    if c.stats['forks']:
        return [ob("harness: slot oracle forked", 'error', group=grp)]
    return obs


def replay_slots(cex):
    import emg3d
    warnings.filterwarnings('ignore')
    nsrc, nfreq = cex['nsrc'], cex['nfreq']
    rng = np.random.default_rng(7)
    grid = emg3d.TensorMesh([np.array([2., 1., 1., 2.])*100,
                             np.array([1., 1., 2., 1.])*100,
                             np.array([1., 2., 1.])*100], (0, 0, 0))
    # differences in the solver's INPUT (e.g. a missing warm start) show at
    # tolerance level only: use a grid on which the iteration does not
    # stagnate at machine precision, and compare bit by bit
    inputs = str(cex.get('what', '')).startswith('solver inputs') and \
        cex.get('gridding', 'same') == 'same'
    if inputs:
        hh = np.array([2., 1., 1., 2., 2., 1., 1., 2.])*50
        grid = emg3d.TensorMesh([hh, hh, hh[:4]*2], (0, 0, 0))
    so = dict(tol=1e-5, tol_gradient=1e-4, maxit=50) if inputs else \
        dict(tol=1e-8, tol_gradient=1e-5, plain=True, maxit=100)
    src = [emg3d.TxElectricDipole((250.+25*i, 150., 150., 20., 10.))
           for i in range(nsrc)]
    rec = [emg3d.RxElectricPoint((225.+50*i, 250.-25*i, 200.+25*i, 30.*i,
                                  10.*i)) for i in range(2)]
    data = (rng.normal(size=(nsrc, 2, nfreq)) +
            1j*rng.normal(size=(nsrc, 2, nfreq)))*1e-9
    model = emg3d.Model(grid, property_x=rng.uniform(.5, 2, grid.shape_cells),
                        property_z=rng.uniform(.5, 2, grid.shape_cells),
                        mapping=MAPPING)
    survey = emg3d.Survey(src, rec, FREQS[:nfreq], data=data,
                          noise_floor=1e-10)
    so = dict(tol=1e-8, plain=True, maxit=100)
    sim = emg3d.Simulation(survey, model, gridding='same', max_workers=1,
                           verb=0, receiver_interpolation='linear',
                           tqdm_opts=False,
                           solver_opts=dict(tol_gradient=1e-5, **so))
    sim.compute()
    sim.gradient
    msgs = []
    for s_, f_ in itertools.product(survey.sources, survey.frequencies):
        e = emg3d.solve_source(model, survey.sources[s_],
                               survey.frequencies[f_], **so)
        got = sim.get_efield(s_, f_)
        if not np.allclose(got.field, e.field, rtol=1e-5,
                           atol=1e-8*np.abs(e.field).max()):
            msgs.append(f"efield slot ({s_},{f_}) is not the field of its "
                        f"own source/frequency")
            continue
        resp = e.get_receiver(survey.receivers.values() if False else
                              survey._rec_types_coord(s_)[0], method='linear')
        if not np.allclose(sim.data.synthetic.loc[s_, :, f_].data, resp,
                           rtol=1e-5, atol=1e-9*np.abs(resp).max()):
            msgs.append(f"synthetic data of ({s_},{f_}) are not sampled "
                        f"from its own field")
        if sim.get_efield_info(s_, f_)['tol'] != 1e-8:
            msgs.append(f"efield_info slot ({s_},{f_}) wrong")
        b = emg3d.solve(model, sim._get_rfield(s_, f_), **{**so, 'tol': 1e-5})
        gb = sim._dict_get('bfield', s_, f_)
        if not np.allclose(gb.field, b.field, rtol=1e-3,
                           atol=1e-5*np.abs(b.field).max()):
            msgs.append(f"bfield slot ({s_},{f_}) is not the back-"
                        f"propagated field of its own residual")
    return bool(msgs), ("real Simulation (sequential): " +
                        ('; '.join(msgs[:3]) or 'all slots hold their own '
                         'results'))


def _dispatch(job):
    return globals()[job[0]](job[1])


def main(tier):
    shadow.load()
    run = Run(PID, tier, design_ref='DESIGN.md §6 C11')
    run.functions.update(shadow.func_lines(
        'emg3d/_multiprocessing.py', ['process_map', 'solve']))
    run.functions.update(shadow.func_lines(
        'emg3d/simulations.py', ['_compute', '_bcompute', 'jvec', '_dict_get',
                                 '_load', '_data_or_file', 'get_efield',
                                 'compute', 'gradient', 'misfit']))
    run.functions.update(shadow.func_lines(
        'emg3d/io.py', ['save', 'load', '_dict_serialize',
                        '_dict_deserialize']))
    run.extra['hashes'] = {k: v for k, v in shadow.hashes().items()
                           if k in ('emg3d/simulations.py', 'emg3d/io.py',
                                    'emg3d/_multiprocessing.py')}
    if tier == 'quick':
        shapes = [(2, 2)]
        extra = [(3, 1, False, True, 0), (1, 3, True, False, 1),
                 (2, 1, False, False, 2, 'dict'),
                 (2, 1, True, True, 0, 'dict'),
                 (2, 1, True, False, 1, 'dict'),
                 (1, 2, False, False, 0, 'dict1')]
    else:
        shapes = [(3, 1), (1, 3), (2, 2)]
        # every combination of completion orders of ALL pool runs of the
        # scenario (seven of them: 2^7 paths for two tasks, split by the
        # order of the first run into two jobs per configuration); for
        # three tasks 6^7 paths are out of reach - there each pool run is
        # studied on its own (n! orders, the cases below)
        extra = [(2, 1, tq, fl, ('all', j)) for j in range(2)
                 for tq, fl in ((False, True), (True, False))]
        extra += [(2, 1, tq, fl, st, 'dict') for tq in (False, True)
                  for fl in (False, True) for st in (0, 1, 2)]
    cases = [(ns, nf, tq, fl, st) for ns, nf in shapes
             for tq in (False, True) for fl in (False, True)
             for st in (0, 1, 2)] + extra
    # longest first
    cases.sort(key=lambda x: -(x[0]*x[1]+(
        10 if isinstance(x[4], tuple) else 0)))
    jobs = [('case_mode', x) for x in cases]
    jobs += [('case_slots', sh) for sh in
             ([(2, 2)] if tier == 'quick' else [(2, 2), (3, 2), (2, 3)])]
    obs = pmap(_dispatch, jobs)
    run.add(obs)
    run.bounds = dict(
        tasks_per_pool_run=sorted({x[0]*x[1] for x in cases}),
        # (survey_shapes below: sources x frequencies)
        survey_shapes=sorted({(x[0], x[1]) for x in cases}),
        gridding="'same' and 'dict' (source-dependent computational grids "
        "of different size, model volume-averaged to them)",
        max_workers="symbolic integer 1..16", completion_orders="all n! of "
        "the pool run under study (forward compute / back-propagation / "
        "J v), the other pool runs complete in reverse submission order" + (
            "" if tier == 'quick' else "; plus, for two tasks, every "
            "combination of completion orders of all pool runs of the "
            "scenario"),
        modes="in-memory and file-based, with and without tqdm",
        problem="4x4x3 grid, VTI, Resistivity, 2 receivers, tol != "
        "tol_gradient")
    run.assumptions = [
        "process pools obey the concurrent.futures contract modelled in "
        "symx/cfmodel.py: pickled (deep-copied) arguments and results, "
        "arbitrary completion order, Executor.map in submission order, "
        "as_completed in completion order; tqdm.contrib.concurrent."
        "process_map == list(ex.map(...)); tqdm.auto.tqdm iterates",
        "emg3d.solve is one uninterpreted function of (model values, "
        "source-field values, tolerance) shared by all runs: the verdict "
        "holds for every interpretation; bit-identity of real floating-"
        "point solves across processes is outside the claim",
        "HDF5 back end (_hdf5_dump/_hdf5_load) is an in-memory store that "
        "returns what was dumped (deep copy); the real io.save/io.load "
        "serialisation layers run (C17 checks the back ends on real files)",
        "worker-local module state (one worker running several tasks) is "
        "not modelled: each task sees the parent's state at submission",
    ]
    run.stubs = ["concurrent.futures.ProcessPoolExecutor / as_completed / "
                 "wait -> symx.cfmodel (nondeterministic schedule)",
                 "tqdm -> symx.cfmodel.TqdmModel or None",
                 "emg3d.solve -> uninterpreted function",
                 "io._hdf5_dump/_hdf5_load -> in-memory store",
                 "get_receiver -> C09 trilinear"]
    run.outside = ["real OS processes, pickling of real objects, HDF5 "
                   "files", "more than 4 tasks per pool run", "layered "
                   "mode (_compute_1d)", "gridding != 'same'"]
    run.explanation = (
        "The real process_map/solve/_compute/_bcompute/jvec code runs on a "
        "shadow Simulation with symbolic content under a nondeterministic "
        "model of the process pool: worker count and completion order are "
        "solver variables, every permutation of the tasks is an explored "
        "path, and z3 decides on each path that all public results equal "
        "the sequential in-memory run for any interpretation of the "
        "solver.")
    for o in obs[:3]:
        run.sample(dict(group=o['group'], label=o['label'][:200],
                        verdict=o['verdict'], note=o['note']))
    return run.finish(replay)
