"""C12 — simulation results are a function of model and survey, not of
call history.

Real code (shadow): simulations.Simulation (compute, misfit, gradient, jvec,
jtvec, get_efield, clean, copy, to_dict, from_dict, to_file hand-over) and
surveys.Survey on symbolic content, emg3d.solve as ONE uninterpreted function
of (model values, source-field values, tolerance) shared by both sides.
Differential symbolic execution: after every operation sequence the public
results (synthetic data, misfit, gradient) are compared by the solver with
those of a freshly created simulation of the same model/survey/options.
"""
import time
import warnings
import itertools
from fractions import Fraction

import numpy as np
import z3

import symx
from symx import Q, Qc, B, Ctx, set_ctx, sym_array, State, shadow
from . import simx, c07
from .common import ob, Run, pmap

PID = 'C12'
ANISO, MAPPING = 'VTI', 'LgResistivity'
SIM_KW = dict(solver_opts=dict(tol=1e-6, tol_gradient=1e-2))


def _vec(sim, tag):
    g = sim.model.shape if sim.model.case == 'isotropic' else \
        (2,)+tuple(sim.model.shape)
    return sym_array(tag, g)


def _wvec(sim, tag):
    w = np.empty(sim.survey.shape, dtype=object)
    for i in np.ndindex(*sim.survey.shape):
        w[i] = Qc.var(f"{tag}{list(i)}")
    return w.view(symx.SymArray)


def _new_model(E, c, sim, tag):
    model, vals = simx.make_model(E, c, sim.model.grid, ANISO, MAPPING,
                                  tag=tag)
    return model


def op_update_model(E, c, st):
    sim = st['sim']
    st['mtag'] = 'q'
    sim.model = _new_model(E, c, sim, 'q')
    sim.clean('computed')


def op_copy_mutate_copy(E, c, st):
    sim = st['sim']
    cp = sim.copy()
    newv = sym_array('z', cp.model.shape, positive=True)
    cp.model.property_x = newv          # in-place write into the copy
    cp.survey.data.observed.data[(0,)*3] = Qc.var('zz')


def op_to_file_results(E, c, st):
    sim = st['sim']
    real_save = E.simulations.io.save

    def fake_save(fname, **kw):
        kw['simulation'].to_dict()       # what _dict_serialize does
    E.simulations.io.save = fake_save
    try:
        sim.to_file('dummy.h5', what='results')
    finally:
        E.simulations.io.save = real_save


class HistoryViolation(Exception):
    pass


def _fields_present(sim):
    out = {}
    for s_ in sim.survey.sources:
        for f_ in sim.survey.frequencies:
            out[(s_, f_)] = sim._dict_efield[s_][f_] is not None
    return out


def op_copy(E, c, st, how='copy'):
    sim = st['sim']
    before = _fields_present(sim)
    if how == 'copy':
        new = sim.copy()
    else:
        new = E.simulations.Simulation.from_dict(sim.to_dict(copy=True))
    if _fields_present(new) != before or _fields_present(sim) != before:
        raise HistoryViolation(
            f"{how} (what='computed') does not carry the computed fields")
    st['sim'] = new


OPS = {
    'compute': lambda E, c, st: st['sim'].compute(),
    'misfit': lambda E, c, st: st['sim'].misfit,
    'gradient': lambda E, c, st: st['sim'].gradient,
    'jvec': lambda E, c, st: st['sim'].jvec(
        _vec(st['sim'], f"v{st.get('pos', '')}")),
    'jtvec': lambda E, c, st: st['sim'].jtvec(
        _wvec(st['sim'], f"w{st.get('pos', '')}")),
    'get_efield': lambda E, c, st: st['sim'].get_efield(
        list(st['sim'].survey.sources)[0], list(
            st['sim'].survey.frequencies)[0]),
    'clean_computed': lambda E, c, st: st['sim'].clean('computed'),
    'clean_keepresults': lambda E, c, st: st['sim'].clean('keepresults'),
    'clean_all': lambda E, c, st: st['sim'].clean('all'),
    'copy': lambda E, c, st: op_copy(E, c, st, 'copy'),
    'copy_results': lambda E, c, st: st.__setitem__(
        'sim', st['sim'].copy(what='results')),
    'dict': lambda E, c, st: op_copy(E, c, st, 'dict'),
    'update_model': op_update_model,
    'copy_mutate_copy': op_copy_mutate_copy,
    'to_file_results': op_to_file_results,
}


def results(sim):
    mis = sim.misfit
    mis = mis.item() if isinstance(mis, np.ndarray) else mis
    syn = [x for x in sim.data.synthetic.data.flat]
    grad = [x for x in np.asarray(sim.gradient, dtype=object).flat]
    return syn, mis, grad


def same(c, a, b):
    sa, ma, ga = a
    sb, mb, gb = b
    if len(sa) != len(sb) or len(ga) != len(gb):
        return 'shape'

    def eq(x, y):
        nx = isinstance(x, symx.NaNQ) or (isinstance(x, (float, complex))
                                          and x != x)
        ny = isinstance(y, symx.NaNQ) or (isinstance(y, (float, complex))
                                          and y != y)
        if nx or ny:
            return nx and ny
        x, y = Qc._co(x), Qc._co(y)
        if symx.qt(x.re).eq(symx.qt(y.re)) and \
                symx.qt(x.im).eq(symx.qt(y.im)):
            return True
        return c.valid(c07.eqc(x, y), label='cmp')[0] == 'held'
    for x, y in zip(sa, sb):
        if not eq(x, y):
            return 'synthetic data'
    if not eq(ma, mb):
        return 'misfit'
    for x, y in zip(ga, gb):
        if not eq(x, y):
            return 'gradient'
    return None


def case_sequence(seq):
    nsrc = 1
    if seq and seq[0] == 'nsrc2':        # two source-frequency pairs
        nsrc, seq = 2, tuple(seq[1:])
    E = shadow.load()
    c = set_ctx(Ctx(timeout_ms=60000))
    State.OBJECT_ALLOC = True
    warnings.filterwarnings('ignore')
    grp = "history "+' -> '.join(seq)+(" (2 sources)" if nsrc == 2 else "")
    W = simx.World()
    X = c07.build(E, c, 'ee', ANISO, MAPPING, W=W, sim_kw=SIM_KW, nsrc=nsrc)
    X2 = None
    t0 = time.time()
    try:
        st = dict(sim=X['sim'], mtag='p')
        ret = None
        for pos, name in enumerate(seq):
            st['pos'] = pos
            try:
                ret = OPS[name](E, c, st)
                if name in ('jvec', 'jtvec'):
                    # (jvec returns a live array: snapshot the values)
                    ret = list(np.asarray(ret, dtype=object).flat)
            except HistoryViolation as e:
                c07.teardown(E, X)
                X = None
                return [ob("copies carry the computed state", 'cex',
                           group=grp, cls='concrete', note=str(e),
                           key=f"copy/to_dict loses computed fields after "
                               f"{' -> '.join(seq[:-1]) or 'nothing'}",
                           cex=dict(kind='history', seq=list(seq),
                                    what='state'))]
            except AttributeError as e:
                if "no attribute 'weights'" in str(e) or \
                        "no attribute 'residual'" in str(e):
                    # jtvec before any misfit: the operation is not
                    # available in this state (raises); nothing to compare
                    return [ob("sequence not applicable (jtvec needs a "
                               "misfit first)", 'held', group=grp,
                               cls='concrete', nontrivial=False)]
                raise
        try:
            got = results(st['sim'])
        except AttributeError as e:
            if "'NoneType' object has no attribute 'grid'" not in str(e):
                raise
            c07.teardown(E, X)
            X = None
            return [ob("results can be queried after the sequence", 'cex',
                       group=grp, cls='concrete', seconds=time.time()-t0,
                       note=repr(e),
                       key="results unavailable after clean('keepresults') "
                           "/ copy(what='results'): gradient raises instead "
                           "of recomputing the fields",
                       cex=dict(kind='history', seq=list(seq),
                                what='exception'))]
        # fresh simulation: same survey content, current model, same options
        c07.teardown(E, X)
        X2 = c07.build(E, c, 'ee', ANISO, MAPPING, W=W, sim_kw=SIM_KW,
                       nsrc=nsrc)
        if st['mtag'] != 'p':
            X2['sim'].model = _new_model(E, c, X2['sim'], st['mtag'])
            X2['sim'].clean('computed')
        want = results(X2['sim'])
        diff = same(c, got, want)
        # the RETURN VALUE of a final jvec / jtvec must equal that of the
        # same call on a fresh simulation (which needs a misfit first)
        if diff is None and seq[-1] in ('jvec', 'jtvec'):
            c07.teardown(E, X2)
            X2 = c07.build(E, c, 'ee', ANISO, MAPPING, W=W, sim_kw=SIM_KW,
                           nsrc=nsrc)
            if st['mtag'] != 'p':
                X2['sim'].model = _new_model(E, c, X2['sim'], st['mtag'])
                X2['sim'].clean('computed')
            X2['sim'].misfit
            st2 = dict(sim=X2['sim'], mtag=st['mtag'], pos=len(seq)-1)
            ret2 = list(np.asarray(OPS[seq[-1]](E, c, st2),
                                   dtype=object).flat)
            d2 = same(c, (ret, 0.0, []), (ret2, 0.0, []))
            if d2:
                diff = f"return value of {seq[-1]}"
        tols = sorted({cc['tol'] for cc in W.calls})
    except Exception as e:    # noqa
        import traceback
        return [ob("sequence runs", 'error', group=grp, cls='LIN',
                   note=repr(e)+traceback.format_exc()[-600:])]
    finally:
        try:
            if X2 is not None or X is not None:
                c07.teardown(E, X2 if X2 is not None else X)
        except Exception:   # noqa
            pass
    if c.stats['forks']:
        return [ob("harness: unexpected fork", 'error', group=grp)]
    if diff:
        last = [s for s in seq if s in ('jtvec',)]
        key = (f"{diff} after jtvec differs from a fresh simulation (cached "
               f"J^T w / overwritten residual)" if 'jtvec' in seq and
               diff == 'gradient' else
               f"{diff} depends on history: {' -> '.join(seq)}")
        return [ob(f"{diff} equals that of a fresh simulation", 'cex',
                   group=grp, cls='NRA-small', seconds=time.time()-t0,
                   key=key, cex=dict(kind='history', seq=list(seq),
                                     what=diff, nsrc=nsrc))]
    return [ob("synthetic data, misfit and gradient equal those of a fresh "
               "simulation (any interpretation of Solve)", 'held',
               group=grp, cls='NRA-small', seconds=time.time()-t0,
               note=f"solver tolerances seen: {tols}")]


# --------------------------------------------------------------------------
def replay(cex):
    import emg3d
    import tempfile
    import shutil
    import os
    warnings.filterwarnings('ignore')
    seq = cex['seq']
    rng = np.random.default_rng(5)
    grid = emg3d.TensorMesh([np.array([2., 1., 1., 2.])*100,
                             np.array([1., 1., 2., 1.])*100,
                             np.array([1., 2., 1.])*100], (0, 0, 0))
    nsrc = cex.get('nsrc', 1)
    src = [emg3d.TxElectricDipole((250.+25*i, 150., 150., 20., 10.))
           for i in range(nsrc)]
    rec = [emg3d.RxElectricPoint((225., 250., 200., 0., 0.)),
           emg3d.RxElectricPoint((275., 225., 225., 30., 10.))]

    def mk_model(seed):
        r = np.random.default_rng(seed)
        return emg3d.Model(grid, property_x=r.uniform(0, 1,
                                                      grid.shape_cells),
                           property_z=r.uniform(0, 1, grid.shape_cells),
                           mapping='LgResistivity')
    data = (rng.normal(size=(nsrc, 2, 1)) +
            1j*rng.normal(size=(nsrc, 2, 1)))*1e-9
    opts = dict(gridding='same', max_workers=1, verb=0,
                receiver_interpolation='linear', tqdm_opts=False,
                solver_opts=dict(tol=1e-12, tol_gradient=1e-2, plain=True,
                                 maxit=300))

    def mk_sim(mseed):
        survey = emg3d.Survey(src, rec, [1.0], data=data.copy(),
                              noise_floor=1e-10)
        return emg3d.Simulation(survey, mk_model(mseed), **opts)
    sim = mk_sim(1)
    mseed = 1
    tmp = tempfile.mkdtemp(prefix='c12_')
    try:
        for name in seq:
            if name == 'compute':
                sim.compute()
            elif name == 'misfit':
                sim.misfit
            elif name == 'gradient':
                sim.gradient
            elif name == 'jvec':
                lastarg = rng.normal(size=(2,)+tuple(grid.shape_cells))
                lastret = np.array(sim.jvec(lastarg))
            elif name == 'jtvec':
                lastarg = rng.normal(size=(nsrc, 2, 1))+0j
                lastret = np.array(sim.jtvec(lastarg))
            elif name == 'get_efield':
                sim.get_efield('TxED-1', 'f-1')
            elif name.startswith('clean_'):
                sim.clean(name[6:])
            elif name == 'copy':
                had = {k: v is not None for k, v in
                       sim._dict_efield['TxED-1'].items()}
                sim = sim.copy()
                if {k: v is not None for k, v in
                        sim._dict_efield['TxED-1'].items()} != had:
                    return True, (f"real copy() after {seq} lost the "
                                  f"computed fields")
            elif name == 'copy_results':
                sim = sim.copy(what='results')
            elif name == 'dict':
                sim = emg3d.Simulation.from_dict(sim.to_dict(copy=True))
            elif name == 'update_model':
                mseed = 2
                sim.model = mk_model(2)
                sim.clean('computed')
            elif name == 'copy_mutate_copy':
                cp = sim.copy()
                cp.model.property_x = cp.model.property_x*0+0.5
                cp.survey.data.observed.data[0, 0, 0] = 1.0
            elif name == 'to_file_results':
                sim.to_file(os.path.join(tmp, 'x.h5'), what='results',
                            verb=0)
        # (same order as the symbolic harness: misfit, then the data)
        mis_, grad_ = float(sim.misfit), np.array(sim.gradient)
        got = (sim.data.synthetic.data.copy(), mis_, grad_)
        fresh = mk_sim(mseed)
        want = (fresh.data.synthetic.data.copy(), float(fresh.misfit),
                np.array(fresh.gradient))
        fresh.compute()
        want = (fresh.data.synthetic.data.copy(), float(fresh.misfit),
                np.array(fresh.gradient))
        if str(cex.get('what', '')).startswith('return value'):
            f2 = mk_sim(mseed)
            f2.misfit
            wantret = np.array(f2.jvec(lastarg) if seq[-1] == 'jvec'
                               else f2.jtvec(lastarg))
            bad = lastret.shape != wantret.shape or not np.allclose(
                lastret, wantret, rtol=1e-5,
                atol=1e-6*np.abs(wantret).max())
            return bad, (f"real Simulation: {seq[-1]} after "
                         f"{' -> '.join(seq[:-1])} returns "
                         f"{'a different' if bad else 'the same'} result "
                         f"as/than the same call on a fresh simulation "
                         f"(max |fresh| {np.abs(wantret).max():.3e})")
    except Exception as e:     # noqa
        return True, f"real sequence {seq} raised {e!r}"[:300]
    finally:
        shutil.rmtree(tmp, ignore_errors=True)
    msgs = []
    if not np.allclose(got[0], want[0], rtol=1e-6, equal_nan=True,
                       atol=1e-6*np.nanmax(np.abs(want[0]))):
        msgs.append("synthetic data differ")
    if not np.isclose(got[1], want[1], rtol=1e-6, atol=0):
        msgs.append(f"misfit {got[1]:.6e} vs fresh {want[1]:.6e}")
    if got[2].shape != want[2].shape or not np.allclose(
            got[2], want[2], rtol=1e-5, atol=1e-6*np.abs(want[2]).max()):
        msgs.append(f"gradient differs (max |fresh| "
                    f"{np.abs(want[2]).max():.3e}, max diff "
                    f"{np.abs(got[2]-want[2]).max() if got[2].shape == want[2].shape else 'shape'})")
    return bool(msgs), (f"real Simulation after {' -> '.join(seq)} vs fresh:"
                        f" " + ('; '.join(msgs) or 'equal'))


def _dispatch(job):
    return globals()[job[0]](job[1])


def sequences(tier):
    names = list(OPS)
    seqs = [(a,) for a in names]
    seqs += [(a, b) for a in names for b in names]
    seqs += [('gradient', 'clean_keepresults', 'update_model'),
             ('gradient', 'copy_results', 'update_model'),
             ('misfit', 'jtvec', 'gradient'),
             ('compute', 'to_file_results', 'copy'),
             ('gradient', 'update_model', 'jvec'),
             ('jvec', 'clean_computed', 'compute'),
             ('misfit', 'jtvec', 'jtvec'), ('gradient', 'jtvec', 'jtvec'),
             ('jtvec', 'jvec', 'jtvec'), ('jtvec', 'clean_computed', 'jtvec'),
             ('jvec', 'jtvec', 'jvec'), ('jtvec', 'copy', 'jtvec'),
             ('jtvec', 'update_model', 'jtvec'),
             # partially computed simulations (one of two pairs)
             ('nsrc2', 'get_efield', 'copy'), ('nsrc2', 'get_efield', 'dict'),
             ('nsrc2', 'get_efield', 'copy_results'),
             ('nsrc2', 'get_efield', 'clean_keepresults'),
             ('nsrc2', 'get_efield', 'jvec'), ('nsrc2', 'gradient', 'copy'),
             ('nsrc2', 'get_efield', 'to_file_results')]
    if tier != 'quick':
        core = ['compute', 'gradient', 'jvec', 'jtvec', 'clean_computed',
                'clean_keepresults', 'copy_results', 'dict',
                'update_model', 'copy_mutate_copy', 'to_file_results']
        seqs += [(a, b, d) for a in core for b in core for d in core]
    return seqs


def main(tier):
    shadow.load()
    run = Run(PID, tier, design_ref='DESIGN.md §6 C12')
    run.functions.update(shadow.func_lines(
        'emg3d/simulations.py', ['Simulation']))
    run.extra['hashes'] = {k: v for k, v in shadow.hashes().items()
                           if k in ('emg3d/simulations.py',
                                    'emg3d/surveys.py')}
    seqs = sequences(tier)
    obs = pmap(_dispatch, [('case_sequence', s) for s in seqs])
    run.add(obs)
    run.bounds = dict(operations=list(OPS), max_length=2 if tier == 'quick'
                      else 3, sequences=len(seqs),
                      problem="4x4x3 grid, VTI, LgResistivity, 1 source, 2 "
                      "receivers, 1 frequency, tol_gradient != tol")
    run.assumptions = [
        "emg3d.solve is one uninterpreted function of (model values, "
        "source-field values, tolerance) with the PEC contract, shared by "
        "the history-laden and the fresh simulation: the verdict holds for "
        "every interpretation (exact-solve idealisation: independent of the "
        "initial guess)",
        "histories are enumerated (that part is not the solver's); the "
        "numeric content of data, model, vectors is symbolic",
        "to_file is modelled by its hand-over (_what_to_file + to_dict); "
        "real file I/O is C17's concrete round trip",
    ]
    run.stubs = ["emg3d.solve -> uninterpreted function", "io.save inside "
                 "to_file -> calls simulation.to_dict() once",
                 "process_map -> map", "get_receiver -> C09 trilinear"]
    run.outside = ["sequences longer than the bound", "file-based "
                   "execution", "get_hfield", "gridding != 'same'"]
    run.explanation = (
        "Every operation sequence up to the bound is executed on a shadow "
        "Simulation whose data, model and vectors are symbolic and whose "
        "solver is an uninterpreted function; afterwards synthetic data, "
        "misfit and gradient are compared by z3, entry by entry, with those "
        "of a freshly built simulation sharing the same uninterpreted "
        "function.")
    for o in obs[:3]:
        run.sample(dict(group=o['group'], label=o['label'][:200],
                        verdict=o['verdict'], note=o['note']))
    return run.finish(replay)
