"""C08 — sensitivity products: J v is the data derivative, J^T its adjoint.

Real code (shadow): simulations.Simulation.jvec / jtvec / gradient on a real
Simulation object (symbolic data, model, vectors; emg3d.solve uninterpreted),
maps.interpolate(volume) for the vector, discretize's edge inner-product
derivative (diag(u) A structure, checked), the Map* chain rules.

With A(p) E = s:  dE = -A^-1 (dA/dp . v) E,  J v = P dE.  The solver decides
 (a) the source field handed to the solver by jvec is exactly
     -(dA/dp . v) E  (dA/dsigma from the C02 operator, chain rule, HTI/VTI
     stacking), and the sampled result lands in data['jvec'];
 (b) jtvec(w) satisfies the two adjoint-state identities of C07 with the
     weighted residual replaced by w (adjoint source = c0 sum conj(w_r) v_r,
     gradient assembly), hence J^T = G^T A^-T P^T is the exact adjoint of
     J = P A^-1 G given A = A^T (C02) and P = V^T (C09);
 (c) jtvec(residual * weights) is term-by-term the gradient.
For gridding != 'same' the additional factor is the volume-averaging pair
whose transpose relation is C15's claim.
"""
import time
import warnings
from fractions import Fraction

import numpy as np
import z3

import symx
from symx import Q, Qc, B, Ctx, set_ctx, sym_array, State, shadow
from . import simx, c07, c14, fit
from .common import ob, Run, pmap
from scipy.constants import mu_0

PID = 'C08'
COMPS = {'iso': [('x', (0, 1, 2))], 'HTI': [('x', (0, 2)), ('y', (1,))],
         'VTI': [('x', (0, 1)), ('z', (2,))],
         'triaxial': [('x', (0,)), ('y', (1,)), ('z', (2,))]}


def case_jvec(case):
    recs, aniso, mapping = case
    E = shadow.load()
    c = set_ctx(Ctx(timeout_ms=120000))
    State.OBJECT_ALLOC = True
    warnings.filterwarnings('ignore')
    grp = f"jvec recs={recs} aniso={aniso} mapping={mapping}"
    X = c07.build(E, c, recs, aniso, mapping)
    obs = []
    try:
        sim, sv, grid, model = X['sim'], X['sv'], X['grid'], X['model']
        shape = grid.shape_cells
        comps = COMPS[aniso]
        vshape = shape if aniso == 'iso' else (len(comps),)+tuple(shape)
        v = sym_array('v', vshape)
        captured = []
        real_solve = E._multiprocessing.solver.solve

        def spy(model, sfield, **kw):
            captured.append(sfield)
            return real_solve(model, sfield, **kw)
        E._multiprocessing.solver.solve = spy
        try:
            sim.misfit
            captured.clear()
            t0 = time.time()
            jv = sim.jvec(v)
        finally:
            E._multiprocessing.solver.solve = real_solve
        v_before_ok = all(isinstance(x, Q) and x.c is None for x in v.flat)
        if len(captured) != 1:
            return [ob("jvec calls the solver once per source-frequency",
                       'cex', group=grp, cls='concrete',
                       key="jvec solver calls", cex=dict(kind='jvec',
                                                         case=list(case)))]
        gfield = captured[0]
        sname, fname = list(sv.sources)[0], list(sv.frequencies)[0]
        ef = sim._dict_get('efield', sname, fname)
        eparts = [ef.fx, ef.fy, ef.fz]
        gparts = [gfield.fx, gfield.fy, gfield.fz]
        smu0 = Qc(0, 2*np.pi*1.0*mu_0)
        M = model.map
        varr = v if aniso != 'iso' else v[None, ...]
        # v' = v * dsigma/dp per component
        vprime = {}
        for ci, (pname, dirs) in enumerate(comps):
            prop = getattr(model, 'property_'+pname)
            for k in np.ndindex(*shape):
                p = prop[k]
                sig = M.backward(np.array([p], dtype=object).view(
                    symx.SymArray))[0]
                dsdp = c14.ddx(c, symx.qt(sig), symx.qt(p))
                for d in dirs:
                    vprime[(d, k)] = Q(symx.qt(varr[ci][k])*dsdp)
        h = grid.h
        vd = 'held'
        nent = 0
        t1 = time.time()
        for d in range(3):
            d1, d2 = fit.CYC[d]
            for e in np.ndindex(*fit.edge_shape(shape, d)):
                acc = Q(Fraction(0))
                for a in (0, 1):
                    for b in (0, 1):
                        k = list(e)
                        k[d1] -= a
                        k[d2] -= b
                        if not all(0 <= k[q] < shape[q] for q in range(3)):
                            continue
                        k = tuple(k)
                        V = float(h[0][k[0]]*h[1][k[1]]*h[2][k[2]])
                        acc = acc + vprime[(d, k)]*Fraction(V)/4
                want = -(smu0*Qc._co(eparts[d][e]))*acc
                # boundary edges: E is zero there (PEC contract)
                v1, m = c.valid(c07.eqc(gparts[d][e], want), label='gfield')
                nent += 1
                if v1 != 'held':
                    vd = v1
                    break
            if vd != 'held':
                break
        obs.append(ob(
            f"source of the sensitivity solve ({nent} edges) == -(dA/dp . v)"
            f" E with dA/dsigma of the C02 operator, chain rule of {mapping}"
            f" and the {aniso} component stacking", vd, group=grp,
            cls='POLY-ID', seconds=time.time()-t1,
            key=f"jvec source field wrong (aniso={aniso}, mapping={mapping})",
            cex=dict(kind='jvec', case=list(case)) if vd == 'cex' else None))
        # result stored at [src, :, freq] = sampling of Solve(gfield)
        t1 = time.time()
        out = E._multiprocessing.solver.solve(model, gfield,
                                              tol=sim.tol_gradient)[0]
        resp = sim._get_responses(sname, fname, out)
        ok = all(c.valid(c07.eqc(a, b))[0] == 'held' for a, b in
                 zip(np.asarray(jv).ravel(), np.asarray(resp).ravel()))
        obs.append(ob("J v = receiver sampling of Solve(model, that source, "
                      "tol_gradient), stored per source/receiver/frequency; "
                      "input vector not modified", 'held' if ok and
                      v_before_ok else 'cex', group=grp, cls='LIN',
                      seconds=time.time()-t1,
                      key="jvec response assembly wrong",
                      cex=dict(kind='jvec', case=list(case)) if not (
                          ok and v_before_ok) else None))
        return obs
    finally:
        c07.teardown(E, X)


def case_jvec_dict(case):
    """J v with source-dependent computational grids (gridding='dict', two
    grids of EQUAL shape but different widths): the sensitivity source of
    every source is built from the vector volume-averaged to ITS OWN grid."""
    aniso, mapping = case
    from . import c15
    E = shadow.load()
    c = set_ctx(Ctx(timeout_ms=120000))
    State.OBJECT_ALLOC = True
    warnings.filterwarnings('ignore')
    grp = f"jvec gridding='dict' aniso={aniso} mapping={mapping}"
    hb = [np.array([1., 2., 2., 1.]), np.array([2., 1., 1., 1.]),
          np.array([2., 1., 1.])]
    gridB = {}

    def gopts(sv, grid):
        gridB['g'] = E.meshes.TensorMesh(hb, (0., 0., 0.))
        srcs, freqs = list(sv.sources), list(sv.frequencies)
        return {s_: {f_: (grid if i == 0 else gridB['g']) for f_ in freqs}
                for i, s_ in enumerate(srcs)}
    X = c07.build(E, c, 'ee', aniso, mapping, nsrc=2, gridding='dict',
                  sim_kw=dict(gridding_opts=gopts))
    obs = []
    try:
        sim, sv, grid, model = X['sim'], X['sv'], X['grid'], X['model']
        shape = grid.shape_cells
        comps = COMPS[aniso]
        vshape = shape if aniso == 'iso' else (len(comps),)+tuple(shape)
        v = sym_array('v', vshape)
        captured = []
        real_solve = E._multiprocessing.solver.solve

        def spy(model, sfield, **kw):
            captured.append(sfield)
            return real_solve(model, sfield, **kw)
        E._multiprocessing.solver.solve = spy
        try:
            sim.misfit
            captured.clear()
            jv = sim.jvec(v)
        finally:
            E._multiprocessing.solver.solve = real_solve
        if len(captured) != 2:
            return [ob("jvec calls the solver once per source-frequency",
                       'cex', group=grp, cls='concrete',
                       key="jvec solver calls",
                       cex=dict(kind='jvec_dict', case=list(case)))]
        smu0 = Qc(0, 2*np.pi*1.0*mu_0)
        M = model.map
        varr = v if aniso != 'iso' else v[None, ...]
        # v' = v * dsigma/dp on the MODEL grid
        vp = {}
        for ci, (pname, dirs) in enumerate(comps):
            prop = getattr(model, 'property_'+pname)
            arr = np.empty(shape, dtype=object)
            for k in np.ndindex(*shape):
                p = prop[k]
                sig = M.backward(np.array([p], dtype=object).view(
                    symx.SymArray))[0]
                dsdp = c14.ddx(c, symx.qt(sig), symx.qt(p))
                arr[k] = Q(symx.qt(varr[ci][k])*dsdp)
            for d in dirs:
                vp[d] = arr
        nodes_m = [np.r_[0., np.cumsum(np.asarray(grid.h[d]))]
                   for d in range(3)]
        for si, sname in enumerate(sv.sources):
            fname = list(sv.frequencies)[0]
            g_s = sim.get_grid(sname, fname)
            gf = [f for f in captured if f.grid is g_s]
            t1 = time.time()
            if len(gf) != 1:
                obs.append(ob(f"source {sname}: one sensitivity solve on "
                              f"its own grid", 'cex', group=grp,
                              cls='concrete', key="jvec (gridding='dict'): "
                              "sensitivity source on the wrong grid",
                              cex=dict(kind='jvec_dict', case=list(case))))
                continue
            gfield = gf[0]
            ef = sim._dict_get('efield', sname, fname)
            eparts = [ef.fx, ef.fy, ef.fz]
            gparts = [gfield.fx, gfield.fy, gfield.fz]
            h = g_s.h
            nodes_s = [np.r_[0., np.cumsum(np.asarray(h[d]))]
                       for d in range(3)]
            shp_s = g_s.shape_cells
            # the vector volume-averaged to this source's grid (independent
            # overlap oracle of C15)
            cv = {d: c15.oracle(nodes_m, nodes_s, vp[d]) for d in range(3)}
            vd = 'held'
            nent = 0
            for d in range(3):
                d1, d2 = fit.CYC[d]
                for e in np.ndindex(*fit.edge_shape(shp_s, d)):
                    acc = Q(Fraction(0))
                    for a in (0, 1):
                        for b in (0, 1):
                            k = list(e)
                            k[d1] -= a
                            k[d2] -= b
                            if not all(0 <= k[q] < shp_s[q]
                                       for q in range(3)):
                                continue
                            k = tuple(k)
                            V = float(h[0][k[0]]*h[1][k[1]]*h[2][k[2]])
                            acc = acc + cv[d][k]*Fraction(V)/4
                    want = -(smu0*Qc._co(eparts[d][e]))*acc
                    v1, m = c.valid(c07.eqc(gparts[d][e], want),
                                    label='gfield dict')
                    nent += 1
                    if v1 != 'held':
                        vd = v1
                        break
                if vd != 'held':
                    break
            obs.append(ob(
                f"source {sname} (grid {'A' if g_s is grid else 'B'}): "
                f"source of its sensitivity solve ({nent} edges) == -(dA/dp "
                f". V v) E with v volume-averaged to ITS OWN grid", vd,
                group=grp, cls='POLY-ID', seconds=time.time()-t1,
                key="jvec (gridding='dict'): sensitivity source built from "
                    "another pair's vector/grid",
                cex=dict(kind='jvec_dict', case=list(case))
                if vd == 'cex' else None))
        if c.stats['forks']:
            obs.append(ob("harness: unexpected fork", 'error', group=grp))
        return obs
    finally:
        c07.teardown(E, X)


def _replay_jvec_dict(cex):
    """Real package, gridding='dict' with two same-shape grids: J v of the
    two-source survey vs central finite differences of the data."""
    import emg3d
    warnings.filterwarnings('ignore')
    aniso, mapping = cex['case'][:2]
    rng = np.random.default_rng(2)
    hx = np.array([2., 1., 1., 2.])*100
    grid = emg3d.TensorMesh([hx, np.array([1., 1., 2., 1.])*100,
                             np.array([1., 2., 1., 2.])*100], (0, 0, 0))
    gridB = emg3d.TensorMesh([np.array([1., 2., 2., 1.])*100,
                              np.array([2., 1., 1., 1.])*100,
                              np.array([2., 1., 1., 2.])*100], (0, 0, 0))
    # (sources and receivers in the interior cells of BOTH grids)
    src = [emg3d.TxElectricDipole((250.+25*i, 250.+25*i, 250.+25*i,
                                   20., 10.)) for i in range(2)]
    rec = [emg3d.RxElectricPoint((225.+50*i, 350.-25*i, 300.+25*i, 30.*i,
                                  10.*i)) for i in range(2)]
    M = getattr(emg3d.maps, 'Map'+mapping)()
    names = ['property_x']+(['property_y'] if aniso in (
        'HTI', 'triaxial') else [])+(['property_z'] if aniso in (
            'VTI', 'triaxial') else [])
    kw = {n: M.forward(rng.uniform(.5, 2, grid.shape_cells)) for n in names}
    survey = emg3d.Survey(src, rec, [1.0], noise_floor=1e-15,
                          relative_error=0.05)
    gopts = {s_: {'f-1': (grid if i == 0 else gridB)}
             for i, s_ in enumerate(survey.sources)}
    opts = dict(gridding='dict', gridding_opts=gopts, max_workers=1, verb=0,
                receiver_interpolation='linear', tqdm_opts=False,
                solver_opts=dict(tol=1e-10))
    sim0 = emg3d.Simulation(survey, emg3d.Model(grid, mapping=mapping,
                                                **kw), **opts)
    sim0.compute(observed=True)
    sim = emg3d.Simulation(sim0.survey, emg3d.Model(grid, mapping=mapping,
                                                    **kw), **opts)
    shp = grid.shape_cells if aniso == 'iso' else (len(names),)+tuple(
        grid.shape_cells)
    # the property's own clause for gridding != 'same': J^T is the exact
    # adjoint of J (the finite-difference clause only holds for 'same':
    # the forward model is averaged on log scale, J v linearly)
    worst = 0.0
    for _ in range(2):
        v = rng.normal(size=shp)
        w = rng.normal(size=survey.shape)+1j*rng.normal(size=survey.shape)
        jv = sim.jvec(v).copy()
        jt = sim.jtvec(w)
        lhs, rhs = np.real(np.vdot(w, jv)), np.sum(jt*v)
        worst = max(worst, abs(lhs-rhs)/max(abs(lhs), abs(rhs)))
        # and per source (each source has its own grid)
        for i in range(2):
            wi = np.zeros_like(w)
            wi[i] = w[i]
            jti = sim.jtvec(wi)
            li, ri = np.real(np.vdot(wi, jv)), np.sum(jti*v)
            worst = max(worst, abs(li-ri)/max(abs(li), abs(ri)))
    return worst > 1e-6, (f"real Simulation (gridding='dict', two grids of "
                          f"equal shape, {aniso}, {mapping}): adjoint test "
                          f"|Re<w,Jv> - <J^T w,v>| / |.| = {worst:.2e}")


def case_jtvec(case):
    recs, aniso, mapping = case
    E = shadow.load()
    c = set_ctx(Ctx(timeout_ms=120000))
    State.OBJECT_ALLOC = True
    warnings.filterwarnings('ignore')
    grp = f"jtvec recs={recs} aniso={aniso} mapping={mapping}"
    X = c07.build(E, c, recs, aniso, mapping)
    try:
        sv = X['sv']
        w = np.empty(sv.shape, dtype=object)
        for i in np.ndindex(*sv.shape):
            w[i] = Qc.var(f"w{list(i)}")
        w = w.view(symx.SymArray)
        full = (recs, aniso, mapping, False, False)
        snap = {}

        def run_jtvec(sim):
            sim.misfit
            real_b = sim._bcompute

            def bc():
                # the residual the back-propagation is built from
                snap['seen'] = sim.data.residual.data.copy()
                return real_b()
            sim._bcompute = bc
            try:
                out = sim.jtvec(w)
            finally:
                del sim._bcompute
            snap['after'] = sim.data.residual.data.copy()
            # the identities below are evaluated for the residual that the
            # back-propagation saw (jtvec restores the data residual)
            sim.data.residual[...] = snap['seen']
            return out
        obs = c07.check_identities(E, c, X, full, grp, run_jtvec, pid=PID)
        for o in obs:
            o['key'] = 'jtvec: '+(o.get('key') or '')
            if o.get('cex'):
                o['cex'] = dict(kind='jtvec', case=list(case))
        # the vector handed over is what the adjoint source was built from
        sim = X['sim']
        ok = 'seen' in snap and all(
            c.valid(c07.eqc(a*b, ww))[0] == 'held' for a, b, ww in zip(
                snap['seen'].ravel(), sim.data.weights.data.ravel(),
                w.ravel()))
        # afterwards the stored residual is the one of the data again
        dres = (sim.data.synthetic - sim.data.observed).data
        ok2 = 'after' in snap and all(
            c.valid(c07.eqc(a, b))[0] == 'held' for a, b in zip(
                snap['after'].ravel(), dres.ravel()))
        obs.append(ob("jtvec: the adjoint source is built from residual * "
                      "weights == w itself; afterwards the stored residual "
                      "is synthetic - observed again", 'held' if ok and ok2
                      else 'cex', group=grp, cls='NRA-small',
                      key="jtvec: residual replacement wrong",
                      cex=dict(kind='jtvec', case=list(case),
                               what='residual') if not (ok and ok2)
                      else None))
        return obs
    finally:
        c07.teardown(E, X)


def case_gradient_equiv(case):
    """jtvec(residual*weights) == gradient, term by term."""
    recs, aniso, mapping = case
    E = shadow.load()
    c = set_ctx(Ctx(timeout_ms=120000))
    State.OBJECT_ALLOC = True
    warnings.filterwarnings('ignore')
    grp = f"jtvec(residual*weights)==gradient aniso={aniso} mapping={mapping}"
    X = c07.build(E, c, recs, aniso, mapping)
    try:
        sim = X['sim']
        t1 = time.time()
        g = np.array(sim.gradient, dtype=object, copy=True)
        rw = (sim.data.residual*sim.data.weights).data.copy()
        jt = sim.jtvec(rw.view(symx.SymArray))
        ok = g.shape == jt.shape
        vd = 'held'
        if ok:
            for a, b in zip(g.ravel(), np.asarray(jt, dtype=object).ravel()):
                if symx.qt(a).eq(symx.qt(b)):
                    continue
                v1, m = c.valid(symx.qt(a) == symx.qt(b), label='equiv')
                if v1 != 'held':
                    vd = v1
                    break
        else:
            vd = 'cex'
        return [ob("jtvec(residual*weights) equals the gradient entry by "
                   "entry", vd, group=grp, cls='NRA-small',
                   seconds=time.time()-t1,
                   key="jtvec(weighted residual) != gradient",
                   cex=dict(kind='equiv', case=list(case)) if vd == 'cex'
                   else None)]
    finally:
        c07.teardown(E, X)


# --------------------------------------------------------------------------
def replay(cex):
    """Real package: J v vs finite differences, adjoint test, jtvec vs
    gradient (public API)."""
    if cex.get('kind') == 'jvec_dict':
        return _replay_jvec_dict(cex)
    import emg3d
    warnings.filterwarnings('ignore')
    recs, aniso, mapping = cex['case'][:3]
    rng = np.random.default_rng(2)
    grid = emg3d.TensorMesh([np.array([2., 1., 1., 2.])*100,
                             np.array([1., 1., 2., 1.])*100,
                             np.array([1., 2., 1.])*100], (0, 0, 0))
    src = [emg3d.TxElectricDipole((250., 150., 150., 20., 10.))]
    rec = []
    for i, ch in enumerate(recs):
        co = (225.+50*i, 250.-25*i, 200.+25*i, 30.*i, 10.*i)
        rec.append(emg3d.RxElectricPoint(co) if ch == 'e' else
                   emg3d.RxMagneticPoint(co))
    M = getattr(emg3d.maps, 'Map'+mapping)()
    names = ['property_x']+(['property_y'] if aniso in ('HTI', 'triaxial')
                            else [])+(['property_z'] if aniso in (
                                'VTI', 'triaxial') else [])
    kw = {n: M.forward(rng.uniform(.5, 2, grid.shape_cells)) for n in names}
    model = emg3d.Model(grid, mapping=mapping, **kw)
    survey = emg3d.Survey(src, rec, [1.0], noise_floor=1e-15,
                          relative_error=0.05)
    opts = dict(gridding='same', max_workers=1, verb=0,
                receiver_interpolation='linear', tqdm_opts=False,
                solver_opts=dict(tol=1e-10))
    sim0 = emg3d.Simulation(survey, model, **opts)
    sim0.compute(observed=True)
    kw2 = {n: a*(1.05) if mapping in ('Conductivity', 'Resistivity')
           else a+0.02 for n, a in kw.items()}
    sim = emg3d.Simulation(sim0.survey, emg3d.Model(grid, mapping=mapping,
                                                    **kw2), **opts)
    shp = grid.shape_cells if aniso == 'iso' else (len(names),)+tuple(
        grid.shape_cells)
    v = rng.normal(size=shp)
    jv = sim.jvec(v)
    w = rng.normal(size=survey.shape)+1j*rng.normal(size=survey.shape)
    jt = sim.jtvec(w)
    dres = (sim.data.synthetic-sim.data.observed).data
    rr = np.abs(sim.data.residual.data-dres).max()/np.abs(dres).max()
    adj = abs(np.real(np.vdot(w, jv))-np.sum(jt*v))/abs(np.sum(jt*v))
    # finite difference of the data along v
    step = 1e-4
    varr = v if aniso != 'iso' else v[None, ...]
    dat = []
    for sgn in (1, -1):
        k3 = {n: kw2[n]+sgn*step*varr[i] for i, n in enumerate(names)}
        s3 = emg3d.Simulation(sim0.survey, emg3d.Model(
            grid, mapping=mapping, **k3), **opts)
        s3.compute()
        dat.append(s3.data.synthetic.data.copy())
    fd = (dat[0]-dat[1])/(2*step)
    fde = np.abs(fd-jv).max()/np.abs(fd).max()
    sim2 = emg3d.Simulation(sim0.survey, emg3d.Model(grid, mapping=mapping,
                                                     **kw2), **opts)
    g = sim2.gradient.copy()
    jt2 = sim2.jtvec(sim2.data.residual.data*sim2.data.weights.data)
    ge = np.abs(g-jt2).max()/np.abs(g).max()
    bad = adj > 1e-6 or fde > 1e-4 or ge > 1e-8 or rr > 1e-9
    return bad, (f"real Simulation ({aniso}, {mapping}, recs={recs}): "
                 f"|Re<w,Jv>-<J^Tw,v>|/|.|={adj:.2e}; |Jv-FD|/|FD|="
                 f"{fde:.2e}; |jtvec(r w)-gradient|={ge:.2e}; stored "
                 f"residual after jtvec vs data residual {rr:.2e}")


def _dispatch(job):
    return globals()[job[0]](job[1])


def main(tier):
    shadow.load()
    run = Run(PID, tier, design_ref='DESIGN.md §6 C08')
    run.functions.update(shadow.func_lines(
        'emg3d/simulations.py', ['jvec', 'jtvec', 'gradient',
                                 '_get_rfield', '_get_responses']))
    run.extra['hashes'] = {k: v for k, v in shadow.hashes().items()
                           if k in ('emg3d/simulations.py', 'emg3d/maps.py')}
    if tier == 'quick':
        cases = [('ee', 'iso', 'Conductivity'), ('ee', 'VTI',
                                                 'LgResistivity'),
                 ('ee', 'HTI', 'Resistivity'),
                 ('ee', 'triaxial', 'LnConductivity')]
        tcases = cases+[('me', 'iso', 'Resistivity')]
    else:
        maps_ = ['Conductivity', 'LgConductivity', 'LnConductivity',
                 'Resistivity', 'LgResistivity', 'LnResistivity']
        cases = [('ee', a, m) for a in ('iso', 'VTI', 'HTI', 'triaxial')
                 for m in maps_]
        tcases = cases+[('me', 'iso', 'Resistivity'),
                        ('mem', 'VTI', 'Conductivity')]
    jobs = [('case_jvec_dict', ('iso', 'Conductivity')),
            ('case_jvec_dict', ('VTI', 'LgResistivity'))] + \
        [('case_jvec', x) for x in cases] + \
        [('case_jtvec', x) for x in tcases] + \
        [('case_gradient_equiv', x) for x in cases[:4]]
    obs = pmap(_dispatch, jobs)
    run.add(obs)
    run.bounds = dict(cases=cases, grid="4x4x3 stretched, gridding='same'",
                      vectors="v model-shaped symbolic reals, w data-shaped "
                      "symbolic complex")
    run.assumptions = [
        "J = P A^-1 G with exact solves; adjointness follows from (a), (b), "
        "A = A^T (C02) and P = V^T (C09) — mathematics, stated",
        "emg3d.solve is an uninterpreted function with the PEC contract",
        "discretize's edge inner-product derivative is diag(u) @ A on "
        "tensor meshes (checked numerically at every call)",
        "gridding other than 'same' adds the volume-averaging pair whose "
        "transpose relation is C15's claim; file-based execution is I/O",
    ]
    run.stubs = ["emg3d.solve -> uninterpreted function",
                 "grid.get_edge_inner_product_deriv -> diag(u) @ A with the "
                 "concrete A from discretize", "process_map -> map",
                 "get_receiver(linear) -> C09's trilinear interpolant"]
    run.outside = ["gridding != 'same' end to end", "file-based execution",
                   "solver tolerance", "Laplace domain"]
    run.explanation = (
        "jvec and jtvec are executed on a real (shadow) Simulation with "
        "symbolic model, data and vectors; z3 decides that the source field "
        "jvec hands to the solver is exactly -(dA/dp . v)E, that jtvec's "
        "adjoint source and gradient assembly are the transposes the "
        "adjoint-state theorem needs, and that jtvec(residual*weights) is "
        "the gradient.")
    for o in obs[:3]:
        run.sample(dict(group=o['group'], label=o['label'][:200],
                        verdict=o['verdict'], note=o['note']))
    return run.finish(replay)
