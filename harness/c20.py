"""C20 — time-domain helper partitions and fills the required frequencies.

Real code (shadow): time.Fourier frequency-bookkeeping properties
(freq_coarse, ifreq_compute, freq_compute, ifreq_extrapolate,
freq_extrapolate, ifreq_interpolate, freq_interpolate), Fourier.interpolate,
Fourier.freq2time.  Required frequencies, band edges, input frequencies and
the complex spectrum are solver variables; InterpolatedUnivariateSpline,
PchipInterpolator and empymod's transform are contract stubs.
"""
import time
import itertools
from fractions import Fraction

import numpy as np
import z3

import symx
from symx import Q, Qc, B, Ctx, set_ctx, sym_array, State, shadow, \
    Inconclusive
from symx.proxies import _Namespace
from .common import ob, Run, pmap

PID = 'C20'


class Rec:
    def __init__(self):
        self.spline = []
        self.pchip = []
        self.tem = []
        self.n = itertools.count()


def make_stubs(c, rec):
    class Spline:
        """Interpolating spline contract: passes through its data."""

        def __init__(self, x, y):
            self.x, self.y = list(x), list(y)
            # SciPy's InterpolatedUnivariateSpline (k=3) needs m > k points
            if len(self.x) <= 3:
                raise ValueError("m must be > k")
            rec.spline.append((self.x, self.y))

        def __call__(self, xq):
            out = np.empty(len(xq), dtype=object)
            for i, q in enumerate(xq):
                hit = None
                for xk, yk in zip(self.x, self.y):
                    if symx.qt(q).eq(symx.qt(xk)):
                        hit = yk
                    else:
                        v, _ = c.valid(symx.qt(q) == symx.qt(xk),
                                       label='knot')
                        if v == 'held':
                            hit = yk
                    if hit is not None:
                        break
                out[i] = hit if hit is not None else \
                    Q.var(f"spl{next(rec.n)}")
            return out.view(symx.SymArray)

    class Pchip:
        def __init__(self, x, y):
            self.x, self.y = list(x), list(y)
            rec.pchip.append((self.x, self.y))

        def __call__(self, xq):
            return np.array([Q.var(f"pch{next(rec.n)}") for _ in xq],
                            dtype=object).view(symx.SymArray)
    return Spline, Pchip


def make_fourier(E, c, nreq, mode, rec):
    """Fourier instance built through its REAL __init__ (empymod's
    check_time is the stub that delivers the symbolic required
    frequencies)."""
    fr = [Q.var(f"f[{k}]") for k in range(nreq)]
    c.assume(B(fr[0].t > 0))
    for a, b in zip(fr[:-1], fr[1:]):
        c.assume(B(a.t < b.t))
    fmin, fmax = Q.var('fmin'), Q.var('fmax')
    c.assume(B(z3.And(fmin.t > 0, fmin.t < fmax.t)))
    rec.freq_req = np.array(fr, dtype=object).view(symx.SymArray)
    kw = {}
    inp = None
    if mode.startswith('every'):
        kw['every_x_freq'] = int(mode[5:])
    elif mode.startswith('input'):
        n = int(mode[5:])
        inp = [Q.var(f"g[{k}]") for k in range(n)]
        c.assume(B(inp[0].t > 0))
        for a, b in zip(inp[:-1], inp[1:]):
            c.assume(B(a.t < b.t))
        kw['input_freq'] = np.array(inp, dtype=object).view(symx.SymArray)
    F = E.time.Fourier(np.array([1., 2.]), fmin, fmax, signal=0, ft='dlf',
                       ftarg={}, verb=0, **kw)
    return F, fr, fmin, fmax, inp


def r_narrow(F, fr, iint, mode):
    """Lower fmax through its setter to the second-largest in-band required
    frequency (no new comparisons: the ordering of fr is assumed); returns
    its index or None."""
    if mode.startswith('input'):
        return None
    inband = [i for i, b in enumerate(iint) if b]
    if len(inband) < 2:
        return None
    F.fmax = fr[inband[-2]]
    return inband[-2]


def case_bookkeeping(case):
    nreq, mode = case
    E = shadow.load()
    c = set_ctx(Ctx(timeout_ms=60000))
    State.OBJECT_ALLOC = True
    rec = Rec()
    Spline, Pchip = make_stubs(c, rec)
    real_sp = E.time.sp
    E.time.sp = _Namespace(real_sp, dict(interpolate=_Namespace(
        real_sp.interpolate, dict(InterpolatedUnivariateSpline=Spline,
                                  PchipInterpolator=Pchip))))
    temcalls = []
    real_em = E.time.empymod

    def tem(fEM, off, freq, time, signal, ft, ftarg):
        temcalls.append(dict(fEM=fEM, freq=freq, time=time, signal=signal,
                             ft=ft, ftarg=ftarg))
        return np.zeros((len(time), 1)), None
    def check_time(time, signal, ft, ftarg, verb):
        return time, rec.freq_req, ft, dict(ftarg)
    E.time.empymod = _Namespace(real_em, dict(
        model=_Namespace(real_em.model, dict(tem=tem)),
        utils=_Namespace(real_em.utils, dict(check_time=check_time))))
    grp = f"bookkeeping nreq={nreq} coarse={mode}"
    bad = None
    npaths = 0
    t0 = time.time()
    try:
        def path():
            rec.spline.clear()
            rec.pchip.clear()
            temcalls.clear()
            rec.n = itertools.count()
            F, fr, fmin, fmax, inp = make_fourier(E, c, nreq, mode, rec)
            iext = [bool(x) for x in F.ifreq_extrapolate]
            iint = [bool(x) for x in F.ifreq_interpolate]
            fcomp = list(F.freq_compute)
            fdata = np.array([Qc.var(f"d[{k}]") for k in range(len(fcomp))],
                             dtype=object).view(symx.SymArray)
            if len(fcomp) == 0:
                return dict(empty=True, F=F, fr=fr, fmin=fmin, fmax=fmax,
                            iext=iext, iint=iint, fcomp=fcomp)
            try:
                out = F.interpolate(fdata)
            except ValueError as e:
                # loud failure (shape mismatch): acceptable outcome
                return dict(empty=True, raised=str(e)[:80], F=F, fr=fr,
                            fmin=fmin, fmax=fmax, iext=iext, iint=iint,
                            fcomp=fcomp)
            sp_calls = list(rec.spline)
            pc_calls = list(rec.pchip)
            t = F.freq2time(fdata, [100.])
            tem1 = list(temcalls)
            # ---- history on the same instance -------------------------
            hist = []
            snap = [Qc._co(v) for v in out]
            fdata2 = np.array([Qc.var(f"e[{k}]") for k in range(len(fcomp))],
                              dtype=object).view(symx.SymArray)
            out2 = F.interpolate(fdata2)
            if out2 is out or not all(
                    symx.qt(a.re).eq(symx.qt(Qc._co(b).re)) and
                    symx.qt(a.im).eq(symx.qt(Qc._co(b).im))
                    for a, b in zip(snap, out)):
                hist.append("a second interpolate() call changes the array "
                            "returned by the first")
            # setters: the transform must see the CURRENT settings
            F.signal = -1
            temcalls.clear()
            F.freq2time(fdata, [100.])
            if len(temcalls) != 1 or temcalls[0]['signal'] != -1:
                hist.append("freq2time ignores a signal changed through "
                            "its setter")
            F.fourier_arguments('dlf', {'pts_per_dec': -1})
            temcalls.clear()
            F.freq2time(fdata, [100.])
            if len(temcalls) != 1 or temcalls[0]['ftarg'] != F.ftarg or \
                    temcalls[0]['ft'] != F.ft or \
                    temcalls[0]['freq'] is not F.freq_required:
                hist.append("freq2time ignores changed Fourier arguments")
            # narrowing the band: slots above the new fmax are zero again
            jn = r_narrow(F, fr, iint, mode)
            if jn is not None:
                temcalls.clear()
                fd3 = np.array([Qc.var(f"n[{k}]")
                                for k in range(len(F.freq_compute))],
                               dtype=object).view(symx.SymArray)
                if len(fd3):
                    try:
                        out3 = F.interpolate(fd3)
                        above = list(range(jn+1, len(fr)))
                        for i in above:
                            o = Qc._co(out3[i])
                            if not (o.re.c == 0 and o.im.c == 0):
                                hist.append("after lowering fmax a slot "
                                            "above the band is not zero")
                                break
                    except ValueError:
                        pass
            return dict(F=F, fr=fr, fmin=fmin, fmax=fmax, inp=inp, iext=iext,
                        iint=iint, fcomp=fcomp, fdata=fdata, out=snap,
                        sp=sp_calls, pc=pc_calls, tem=tem1, hist=hist)
        for r, pc, tr in c.explore(path, budget_s=900, max_paths=4000):
            npaths += 1
            c.pc = pc
            fr, fmin, fmax = r['fr'], r['fmin'], r['fmax']
            conj = []
            for i, f in enumerate(fr):
                below = f.t < fmin.t
                inside = z3.And(f.t >= fmin.t, f.t <= fmax.t)
                conj.append(z3.BoolVal(r['iext'][i]) == below)
                conj.append(z3.BoolVal(r['iint'][i]) == inside)
            for f in r['fcomp']:
                conj.append(z3.And(symx.qt(f) >= fmin.t,
                                   symx.qt(f) <= fmax.t))
            v, m = c.valid(z3.And(*conj), label='partition')
            if v != 'held':
                bad = ('groups are not {f<fmin, fmin<=f<=fmax, f>fmax} or '
                       'a computed frequency lies outside the band', v, m, r)
                break
            if r.get('empty'):
                continue
            out, fdata, fcomp = r['out'], r['fdata'], r['fcomp']
            why = None
            # above the band: exactly zero
            for i in range(len(fr)):
                if not r['iext'][i] and not r['iint'][i]:
                    o = Qc._co(out[i])
                    if not (o.re.c == 0 and o.im.c == 0):
                        why = f"slot {i} above fmax is not zero"
            # pass-through: a required frequency that coincides with a
            # computed one carries exactly the supplied datum
            for i, f in enumerate(fr):
                if not r['iint'][i]:
                    continue
                for k, g in enumerate(fcomp):
                    same = symx.qt(g).eq(f.t) or c.valid(
                        symx.qt(g) == f.t, label='coincide')[0] == 'held'
                    if same:
                        o, dk = Qc._co(out[i]), fdata[k]
                        v2, m2 = c.valid(z3.And(
                            symx.qt(o.re) == symx.qt(dk.re),
                            symx.qt(o.im) == symx.qt(dk.im)),
                            label='passthrough')
                        if v2 != 'held':
                            why = (f"datum of computed frequency {k} is not "
                                   f"passed to required slot {i}")
                            m = m2
            # in-band slots hold either an interpolated value (spline stub
            # output) or the datum of the SAME frequency
            if not r['sp']:
                k = 0
                for i, f in enumerate(fr):
                    if not r['iint'][i]:
                        continue
                    o = Qc._co(out[i])
                    src = None
                    for kk, dk in enumerate(fdata):
                        if symx.qt(o.re).eq(symx.qt(dk.re)) and \
                                symx.qt(o.im).eq(symx.qt(dk.im)):
                            src = kk
                    if src is None:
                        why = why or f"slot {i} in band holds no datum"
                    else:
                        v3, m3 = c.valid(symx.qt(fcomp[src]) == f.t,
                                         label='same freq')
                        if v3 != 'held':
                            why = why or (
                                f"datum of computed frequency {src} is "
                                f"copied to required slot {i} although the "
                                f"two frequencies differ")
                            m = m3
            # extrapolation support: 1e-100 Hz with (Re d0, -1e-100) plus
            # exactly the computed points
            if any(r['iext']):
                if len(r['pc']) != 2:
                    why = why or "PCHIP not called for real and imaginary"
                else:
                    xs, ys_re = r['pc'][0]
                    _, ys_im = r['pc'][1]
                    okx = len(xs) == len(fcomp)+1 and \
                        float(xs[0]) == 1e-100 and all(
                            symx.qt(a).eq(symx.qt(b)) for a, b in
                            zip(xs[1:], fcomp))
                    oky = len(ys_re) == len(fcomp)+1 and \
                        symx.qt(ys_re[0]).eq(symx.qt(fdata[0].re)) and all(
                            symx.qt(a).eq(symx.qt(b.re)) for a, b in
                            zip(ys_re[1:], fdata)) and \
                        all(symx.qt(a).eq(symx.qt(b.im)) for a, b in
                            zip(ys_im[1:], fdata)) and \
                        abs(float(Qc._co(ys_im[0]).re if isinstance(
                            ys_im[0], Qc) else ys_im[0])) <= 1e-99
                    if not (okx and oky):
                        why = why or ("extrapolation is not anchored at "
                                      "(1e-100 Hz, Re d[0]) plus the "
                                      "computed data")
            for hmsg in r.get('hist', []):
                why = why or hmsg
            # transform hand-over
            if len(r['tem']) != 1:
                why = why or "reference transform not called exactly once"
            else:
                tc = r['tem'][0]
                same = all(
                    symx.qt(Qc._co(a).re).eq(symx.qt(Qc._co(b).re)) and
                    symx.qt(Qc._co(a).im).eq(symx.qt(Qc._co(b).im))
                    for a, b in zip(np.asarray(tc['fEM']).ravel(), out)) \
                    if not rec.spline and not rec.pchip else True
                if tc['freq'] is not rec.freq_req or not same:
                    why = why or ("transform does not receive the filled "
                                  "spectrum at the required frequencies")
            if why:
                r2, mw = c.check(label='w')
                bad = (why, 'cex', mw if m is None else m, r)
                break
    except Inconclusive as e:
        return [ob("exploration", 'unknown', group=grp, cls='LIN',
                   note=str(e))]
    finally:
        E.time.sp = real_sp
        E.time.empymod = real_em
    dt = time.time()-t0
    if bad:
        why, v, m, r = bad
        wit = None
        if m is not None:
            wit = dict(freq=[float(symx.model_value(m, q)) for q in r['fr']],
                       fmin=float(symx.model_value(m, r['fmin'])),
                       fmax=float(symx.model_value(m, r['fmax'])))
            if r.get('inp'):
                wit['input_freq'] = [float(symx.model_value(m, q))
                                     for q in r['inp']]
        return [ob("frequency bookkeeping", 'cex' if v == 'cex' else
                   'unknown', group=grp, cls='LIN', seconds=dt, note=why,
                   key=f"time: {why.split(' or ')[0][:80]}",
                   cex=dict(kind='book', nreq=nreq, mode=mode, witness=wit,
                            why=why))]
    return [ob(f"{npaths} orderings of frequencies vs band edges: three "
               f"disjoint exhaustive groups, computed frequencies in band, "
               f"zero above, pass-through where computed == required, "
               f"extrapolation anchored at the lowest computed datum, "
               f"transform receives the filled spectrum", 'held', group=grp,
               cls='LIN', seconds=dt),
            ob("twin", 'twin_sat' if npaths > 1 else 'twin_unsat', group=grp,
               cls='LIN', nontrivial=False)]


# --------------------------------------------------------------------------
def replay(cex):
    import emg3d
    import warnings
    warnings.filterwarnings('ignore')
    wit = cex.get('witness')
    if not wit:
        return False, 'no witness'
    mode = cex['mode']
    import empymod
    real_ct, real_tem = empymod.utils.check_time, empymod.model.tem
    temcalls = []

    def check_time(time, signal, ft, ftarg, verb):
        return time, np.array(wit['freq']), ft, dict(ftarg)

    def tem(fEM, off, freq, time, signal, ft, ftarg):
        temcalls.append(dict(fEM=np.array(fEM), signal=signal, ft=ft,
                             ftarg=ftarg, freq=freq))
        return np.zeros((len(time), 1)), None
    empymod.utils.check_time, empymod.model.tem = check_time, tem
    try:
        return _replay_body(emg3d, cex, wit, mode, temcalls)
    finally:
        empymod.utils.check_time, empymod.model.tem = real_ct, real_tem


def _replay_body(emg3d, cex, wit, mode, temcalls):
    kw = {}
    if mode.startswith('every'):
        kw['every_x_freq'] = int(mode[5:])
    if 'input_freq' in wit:
        kw['input_freq'] = np.array(wit['input_freq'])
    F = emg3d.time.Fourier(np.array([1., 2.]), wit['fmin'], wit['fmax'],
                           signal=0, ft='dlf', ftarg={}, verb=0, **kw)
    fr = F.freq_required
    msgs = []
    ext, itp = F.ifreq_extrapolate, F.ifreq_interpolate
    above = fr > F.fmax
    if np.any(ext & itp) or np.any(~(ext | itp | above)) or \
            np.any((ext | itp) & above):
        msgs.append("the three groups are not disjoint and exhaustive")
    if not np.array_equal(ext, fr < F.fmin) or \
            not np.array_equal(itp, (fr >= F.fmin) & (fr <= F.fmax)):
        msgs.append("group membership differs from f<fmin / in band")
    fc = F.freq_compute
    if np.any(fc < F.fmin) or np.any(fc > F.fmax):
        msgs.append("computed frequency outside the band")
    if fc.size >= 1:
        rng = np.random.default_rng(0)
        fdata = rng.normal(size=fc.size)+1j*rng.normal(size=fc.size)
        try:
            out = F.interpolate(fdata)
            if np.any(out[above] != 0):
                msgs.append("non-zero above fmax")
            for i, f in enumerate(fr):
                if not itp[i]:
                    continue
                for k in range(fc.size):
                    if out[i] == fdata[k] and fc[k] != f:
                        msgs.append(f"datum of computed frequency {fc[k]} "
                                    f"copied to required frequency {f}")
            for i, f in enumerate(fr):
                for k, g in enumerate(fc):
                    if f == g and itp[i] and \
                            abs(out[i]-fdata[k]) > 1e-9*abs(fdata[k]):
                        msgs.append(f"datum {k} not passed through to "
                                    f"slot {i}: {out[i]} vs {fdata[k]}")
            if np.any(ext):
                # specification of the extrapolation: PCHIP through the
                # anchor (1e-100 Hz, Re d[0]) and exactly the computed data
                from scipy.interpolate import PchipInterpolator
                fx = np.r_[1e-100, fc]
                dx = np.r_[fdata[0].real-1e-100j, fdata]
                want = PchipInterpolator(fx, dx.real)(fr[ext]) + \
                    1j*PchipInterpolator(fx, dx.imag)(fr[ext])
                if np.abs(out[ext]-want).max() > 1e-9*max(
                        1.0, np.abs(want).max()):
                    msgs.append("extrapolated values are not PCHIP through "
                                "(1e-100 Hz, Re d[0]) and the computed data")
            # history on the same instance
            keep = out.copy()
            fd2 = rng.normal(size=fc.size)+1j*rng.normal(size=fc.size)
            out2 = F.interpolate(fd2)
            if out2 is out or not np.array_equal(keep, out):
                msgs.append("a second interpolate() call changes the array "
                            "returned by the first")
            F.signal = -1
            del temcalls[:]
            F.freq2time(fdata, [100.])
            if len(temcalls) != 1 or temcalls[0]['signal'] != -1:
                msgs.append("freq2time ignores a signal changed through its "
                            "setter")
            F.fourier_arguments('dlf', {'pts_per_dec': -1})
            del temcalls[:]
            F.freq2time(fdata, [100.])
            if len(temcalls) != 1 or temcalls[0]['ftarg'] != F.ftarg:
                msgs.append("freq2time ignores changed Fourier arguments")
            cand = [f for f in fr if F.fmin <= f < F.fmax]
            if cand:
                F.fmax = cand[-1]
                nfc = F.freq_compute.size
                if nfc:
                    try:
                        o3 = F.interpolate(rng.normal(size=nfc)+0j)
                        if np.any(o3[fr > F.fmax] != 0):
                            msgs.append("after lowering fmax a slot above "
                                        "the band is not zero")
                    except ValueError:
                        pass
        except ValueError:
            pass          # loud failure (too few points for the spline)
        except Exception as e:    # noqa
            msgs.append(f"interpolate raised {e!r}"[:150])
    return bool(msgs), (f"real Fourier bookkeeping with freq={wit['freq']}, "
                        f"band=[{wit['fmin']}, {wit['fmax']}], {mode}: " +
                        ('; '.join(msgs[:3]) or 'all clauses hold'))


def _dispatch(job):
    return globals()[job[0]](job[1])


def main(tier):
    shadow.load()
    run = Run(PID, tier, design_ref='DESIGN.md §6 C20')
    run.functions.update(shadow.func_lines('emg3d/time.py', ['Fourier']))
    run.extra['hashes'] = {k: v for k, v in shadow.hashes().items()
                           if k == 'emg3d/time.py'}
    if tier == 'quick':
        # (the spline needs >= 4 computed frequencies: coarse cases with
        # fewer end in SciPy's ValueError, a loud failure)
        cases = [(3, 'none'), (4, 'none'), (4, 'every2'), (3, 'input2'),
                 (10, 'every2'), (3, 'input4')]
    else:
        cases = [(n, m) for n in (2, 3, 4, 5) for m in ('none', 'every2',
                                                        'every3')] + \
            [(3, 'input2'), (3, 'input3'), (4, 'input3'), (4, 'input4'),
             (8, 'every2'), (10, 'every2'), (12, 'every3'), (3, 'input4'),
             (4, 'input5')]
    obs = pmap(_dispatch, [('case_bookkeeping', x) for x in cases])
    run.add(obs)
    run.bounds = dict(cases=cases, symbolic="required frequencies (sorted, "
                      "> 0), fmin < fmax, input frequencies (sorted), "
                      "complex spectrum at the computed frequencies")
    run.assumptions = [
        "frequencies are exact reals (comparisons only; NaN/inf "
        "frequencies excluded)",
        "InterpolatedUnivariateSpline passes through its data points and "
        "is arbitrary elsewhere; PchipInterpolator is arbitrary (its "
        "monotonicity is SciPy's); empymod's transform is arbitrary — the "
        "check is on what they are GIVEN",
    ]
    run.stubs = ["scipy.interpolate.InterpolatedUnivariateSpline / "
                 "PchipInterpolator", "empymod.model.tem"]
    run.outside = ["monotone shrinking of the extrapolated imaginary part "
                   "(property of PCHIP given the anchor, not of emg3d)",
                   "numerical equality with the reference transform",
                   "construction of the required frequencies from the time "
                   "vector (empymod)"]
    run.explanation = (
        "The Fourier bookkeeping properties, interpolate() and freq2time() "
        "are executed on symbolic frequencies and band edges; every ordering "
        "of required / input frequencies relative to fmin and fmax (incl. "
        "coincidences) is a path; per path z3 decides the three-group "
        "partition, band containment, zero fill, pass-through and the "
        "anchoring of the extrapolation; the library interpolators and the "
        "transform are stubs whose inputs are checked.")
    for o in obs[:3]:
        run.sample(dict(group=o['group'], label=o['label'][:200],
                        verdict=o['verdict'], note=o['note']))
    return run.finish(replay)
