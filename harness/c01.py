"""C01 — reported solver success certifies the returned field.

Real code executed (shadow): solver.solve, multigrid, krylov, _terminate,
MGParameters, _current_sc_dir, _print_cycle_info, fields.Field,
models.VolumeModel — on a tiny concrete problem.  All numerics that drive
control flow are symbolic IEEE-754 doubles: tol, ||b||, and the *true*
residual norm of every distinct field content (one Float64 variable per
content, shared by the code's residual() calls and by the Krylov process).
smoothing / restriction / prolongation only re-tag field contents; the SciPy
Krylov solvers are nondeterministic processes written from the SciPy 1.18
sources (call-back placement, half-step exit, breakdown codes).
"""
import time
import itertools

import numpy as np
import z3

import symx
from symx import F64, B, Ctx, set_ctx, State, shadow, Inconclusive
from symx.proxies import _Namespace
from .common import ob, Run, pmap, seed

PID = 'C01'
_F = z3.Float64()


class _Duck:
    pass


def tagidx(shape):
    nx, ny, nz = shape
    return nx + nx*(ny+1)      # ex[0, 1, 1] in F-order: first interior edge


class World:
    """Ground truth shared by all stubs of one symbolic run."""

    def __init__(self, c, fine_shape, n_fine):
        self.c = c
        self.fine_shape = fine_shape
        self.n_fine = n_fine
        self.ntag = itertools.count(1)
        self.truth = {}
        self.nb = F64.var('nb')
        c.side.append(z3.Not(z3.fpIsNaN(self.nb.t)))
        c.side.append(z3.Not(z3.fpIsNegative(self.nb.t)))
        c.side.append(z3.Not(z3.fpIsInf(self.nb.t)))
        self.tol = F64.var('tol')
        c.side.append(z3.fpGT(self.tol.t, z3.FPVal(0.0, _F)))
        c.side.append(z3.fpLT(self.tol.t, z3.FPVal(1.0, _F)))
        self.log = []           # residual evaluations by the code
        self.flags = []         # nondeterministic choices taken on the path
        self.nchoice = itertools.count()

    def new_tag(self):
        return float(1000+next(self.ntag))

    def tag(self, f):
        """Content tag of a Field / array."""
        arr = f.field if hasattr(f, 'field') else f
        shape = f.grid.shape_cells if hasattr(f, 'grid') else self.fine_shape
        v = arr[tagidx(shape)]
        return float(np.real(v)), arr.size

    def retag(self, f):
        arr = f.field if hasattr(f, 'field') else f
        shape = f.grid.shape_cells if hasattr(f, 'grid') else self.fine_shape
        arr[tagidx(shape)] = self.new_tag()

    def T(self, s_tag, e_tag, size, main_s):
        """True residual norm ||s - A e|| as one Float64 per content."""
        if size == self.n_fine and s_tag == main_s and e_tag == 0.0:
            return self.nb                  # zero field: residual is b
        key = (size, s_tag, e_tag)
        r = self.truth.get(key)
        if r is None:
            r = F64.var(f"res[{size},{s_tag:g},{e_tag:g}]")
            # a norm: not negative (may be NaN or +inf)
            self.c.side.append(z3.Or(z3.fpIsNaN(r.t),
                                     z3.Not(z3.fpIsNegative(r.t))))
            self.c._feas = None
            self.truth[key] = r
        return r

    def choice(self, name):
        if self.flags:
            return False        # at most one breakdown event per run
        b = z3.Bool(f"{name}!{next(self.nchoice)}")
        v = self.c.decide(b)
        if v:
            self.flags.append(name)
        return v


def install(E, W, main_s_holder, kconf):
    """Install stubs into the shadow solver module; return undo list."""
    S = E.solver
    saved = []

    def setg(mod, name, val):
        saved.append((mod, name, getattr(mod, name)))
        setattr(mod, name, val)

    def residual(model, sfield, efield, norm=False):
        st, _ = W.tag(sfield)
        et, size = W.tag(efield)
        if norm:
            r = W.T(st, et, size, main_s_holder['tag'])
            W.log.append((st, et, size))
            return r
        return efield

    def smoothing(model, sfield, efield, nu, lr_dir):
        W.retag(efield)

    def prolongation(efield, cefield, sc_dir):
        W.retag(efield)

    def restriction(model, sfield, res, sc_dir):
        shp = model.grid.shape_cells
        halve = {0: 'xyz', 1: 'yz', 2: 'xz', 3: 'xy', 4: 'x', 5: 'y',
                 6: 'z'}[int(sc_dir)]
        ch = [np.ones(n//2 if d in halve else n)
              for d, n in zip('xyz', shp)]
        cgrid = E.meshes.BaseMesh(ch, (0, 0, 0))
        cm = _Duck()
        cm.grid = cgrid
        cm.case = model.case
        cs = E.fields.Field(cgrid, dtype=sfield.field.dtype,
                            frequency=sfield._frequency)
        W.retag(cs)
        ce = E.fields.Field(cgrid, dtype=sfield.field.dtype,
                            frequency=sfield._frequency)
        return cm, cs, ce

    def norm(x, check_finite=False):
        return W.nb

    def krylov_process(kind):
        def solver(A=None, b=None, x0=None, rtol=None, maxiter=None,
                   atol=None, M=None, callback=None, **kw):
            main_s = float(np.real(b[tagidx(W.fine_shape)]))
            x = np.array(x0, copy=True)
            ti = tagidx(W.fine_shape)
            tolabs_a = rtol*W.nb               # F64
            # max(atol, rtol*||b||) as in scipy's _get_atol_rtol
            if bool(tolabs_a >= atol):
                tolabs = tolabs_a
            else:
                tolabs = F64(atol)
            if bool(W.nb == 0.0):
                return b, 0

            def cur():
                return W.T(main_s, float(np.real(x[ti])), x.size, main_s)
            r = cur()
            it = 0
            for it in range(maxiter):
                if kind == 'gcrotmk':
                    if callback is not None:
                        callback(x)
                    if bool(r <= tolabs):
                        return x, 0
                    if kconf['breakdown'] and W.choice('linalgerror'):
                        return x, it+1
                else:
                    if bool(r < tolabs):
                        return x, 0
                    if kconf['breakdown'] and W.choice('rho_breakdown'):
                        return x, -10
                if M is not None:
                    p = np.zeros_like(x)
                    p[ti] = W.new_tag()
                    M.matvec(p)
                if kind != 'gcrotmk' and kconf['breakdown'] and \
                        W.choice('rv_breakdown'):
                    return x, -11
                if kind == 'bicgstab':
                    half = W.new_tag()
                    sn = W.T(main_s, half, x.size, main_s)
                    if bool(sn < tolabs):
                        x[ti] = half           # x += alpha*phat
                        return x, 0            # no call-back on this exit
                if kind in ('bicgstab', 'cgs') and M is not None:
                    p = np.zeros_like(x)
                    p[ti] = W.new_tag()
                    M.matvec(p)
                x[ti] = W.new_tag()            # in-place update of x
                r = cur()
                if kind != 'gcrotmk' and callback is not None:
                    callback(x)
            return x, maxiter
        return solver

    setg(S, 'residual', residual)
    setg(S, 'smoothing', smoothing)
    setg(S, 'prolongation', prolongation)
    setg(S, 'restriction', restriction)
    real_sp = S.sp
    setg(S, 'sp', _Namespace(real_sp, dict(
        linalg=_Namespace(real_sp.linalg, dict(norm=norm)),
        sparse=_Namespace(real_sp.sparse, dict(
            linalg=_Namespace(real_sp.sparse.linalg, dict(
                bicgstab=krylov_process('bicgstab'),
                cgs=krylov_process('cgs'),
                gcrotmk=krylov_process('gcrotmk'))))))))
    RealMGP = S.MGParameters

    class MGP(RealMGP):
        def __post_init__(self):
            super().__post_init__()
            # log arrays must be able to hold symbolic doubles
            self.error_at_cycle = np.array([0.], dtype=object)
    MGP.__name__ = 'MGParameters'
    setg(S, 'MGParameters', MGP)
    return saved


def uninstall(saved):
    for mod, name, val in reversed(saved):
        setattr(mod, name, val)


def make_problem(E, freq):
    hx = np.array([1., 2., 1.5, 3.])
    grid = E.meshes.TensorMesh([hx, hx*1.1, hx*0.7], (0, 0, 0))
    model = E.models.Model(grid, property_x=1.5, property_z=2.0)
    sfield = E.fields.get_source_field(grid, (3.1, 3.2, 2.3, 20, 30), freq)
    return grid, model, sfield


def case_config(case):
    """Explore all paths of solve() for one configuration."""
    cfg = dict(case)
    E = shadow.load()
    c = set_ctx(Ctx(timeout_ms=120000))
    c.fp_abstract = True     # products abstracted; exact on counterexample
    State.OBJECT_ALLOC = False
    freq = cfg.get('freq', 1.0)
    grid, model, sfield = make_problem(E, freq)
    shape = grid.shape_cells
    ti = tagidx(shape)
    W = World(c, shape, sfield.field.size)
    sfield.field[ti] = 77.0
    main = {'tag': 77.0}
    grp = ' '.join(f"{k}={v}" for k, v in sorted(cfg.items()))
    obs = []
    bnd_idx = _boundary_index(E, grid)
    kconf = dict(breakdown=cfg.get('breakdown', True))

    def one_path():
        W.truth.clear() if False else None
        W.log.clear()
        W.flags.clear()
        W.ntag = itertools.count(1)
        W.nchoice = itertools.count()
        saved = install(E, W, main, kconf)
        try:
            kw = dict(sslsolver=cfg['sslsolver'], semicoarsening=cfg['sc'],
                      linerelaxation=cfg['lr'], verb=0, cycle=cfg['cycle'],
                      tol=W.tol, maxit=cfg['maxit'], nu_init=cfg['nu_init'],
                      clevel=cfg['clevel'], return_info=cfg['return_info'],
                      log=-1)
            supplied = None
            if cfg['supplied']:
                supplied = E.fields.Field(grid, frequency=freq)
                supplied.field[:] = 5.0         # sentinel incl. boundary
                supplied.field[ti] = 500.0
                kw['efield'] = supplied
            if cfg.get('always_return'):
                kw['always_return'] = True
            try:
                out = E.solver.solve(model, sfield, **kw)
            except E.solver._ConvergenceError:
                return dict(exc='_ConvergenceError escaped')
            return dict(out=out, supplied=supplied, log=list(W.log),
                        flags=list(W.flags))
        finally:
            uninstall(saved)

    stats = dict(paths=0, exit0=0, exit1=0, zero=0)
    t0 = time.time()
    budget = cfg.get('budget', 900)
    findings = {}
    try:
        for res, pc, trace in c.explore(one_path, budget_s=budget):
            stats['paths'] += 1
            c.pc = pc
            chk = check_path(E, c, W, cfg, res, sfield, main, bnd_idx,
                             seen=tuple(findings))
            for k in ('exit0', 'exit1', 'zero'):
                stats[k] += chk['stats'].get(k, 0)
            for f in chk['findings']:
                findings.setdefault(f['key'], f)
            for u in chk['unknown']:
                obs.append(ob(u, 'unknown', group=grp, cls='FP'))
    except Inconclusive as e:
        obs.append(ob("path exploration", 'unknown', group=grp, cls='FP',
                      note=str(e)))
        return obs
    dt = time.time()-t0
    for key, f in findings.items():
        obs.append(ob(f['label'], 'cex', group=grp, cls='FP', seconds=0,
                      key=key, note=f['note'], cex=f['cex']))
    obs.append(ob(
        f"{stats['paths']} paths: success => true residual of the returned "
        f"field < tol*||b|| and error figures describe it; zero source => "
        f"zero field; PEC; failure => exit 1 + message",
        'held' if not findings else 'cex', group=grp, cls='FP', seconds=dt,
        key=None if not findings else next(iter(findings)),
        cex=None if not findings else next(iter(findings.values()))['cex'],
        note=f"paths={stats['paths']} exit0={stats['exit0']} "
             f"exit1={stats['exit1']} zero={stats['zero']} "
             f"queries={c.stats['queries']} "
             f"solver_s={c.stats['solver_s']:.1f}"))
    if findings:
        obs.pop()       # the per-key cex obligations carry the information
    reach = (stats['exit0'] and stats['exit1']) if cfg['return_info'] \
        else stats['paths'] >= 2
    obs.append(ob("twin: both success and failure paths reached",
                  'twin_sat' if reach else 'twin_unsat', group=grp, cls='FP',
                  nontrivial=False))
    return obs


def _boundary_index(E, grid):
    f = E.fields.Field(grid, dtype=float)
    f.fx[:, 0, :] = f.fx[:, -1, :] = 1
    f.fx[:, :, 0] = f.fx[:, :, -1] = 1
    f.fy[0, :, :] = f.fy[-1, :, :] = 1
    f.fy[:, :, 0] = f.fy[:, :, -1] = 1
    f.fz[0, :, :] = f.fz[-1, :, :] = 1
    f.fz[:, 0, :] = f.fz[:, -1, :] = 1
    return np.asarray(f.field) == 1


def check_path(E, c, W, cfg, res, sfield, main, bnd_idx, seen=()):
    out = dict(findings=[], unknown=[], stats={})

    def vq(prop, kind):
        """valid() with refinement, skipped if a finding of this kind is
        already recorded for the configuration."""
        v, m = c.valid(prop, label=kind, refine=False)
        if v != 'cex' or not c.fp_refine:
            return v, m
        if any(k.startswith(kind) for k in seen):
            return 'dup', None
        return c.valid(prop, label=kind)

    def finding(key, label, note, m):
        vals = {}
        if m is not None:
            try:
                vals = dict(tol=symx.f64_model_value(m, W.tol),
                            nb=symx.f64_model_value(m, W.nb))
                for k, r in W.truth.items():
                    vals[f"res{k}"] = symx.f64_model_value(m, r)
            except Exception as e:    # noqa
                vals = dict(error=repr(e))
        out['findings'].append(dict(
            key=key, label=label, note=note,
            cex=dict(kind=key.split(':')[0], cfg=cfg, values=vals,
                     note=note)))

    if 'exc' in res:
        finding('exception: internal exception escapes solve()',
                "no internal exception escapes", res['exc'], None)
        return out
    o = res['out']
    supplied = res['supplied']
    info = None
    ret = None
    if isinstance(o, tuple):
        ret, info = o
    elif isinstance(o, dict):
        info = o
    elif o is not None:
        ret = o
    field = ret if ret is not None else supplied
    if field is None:
        finding('interface: nothing returned and no field supplied',
                "a field is returned or written", '', None)
        return out
    # which branch: zero source?
    r, _ = c.check(z3.Not(z3.fpLT(W.nb.t, z3.FPVal(
        100*np.finfo(float).tiny, _F))), label='nonzero source feasible')
    zero_source = (r == 'unsat')
    et, size = W.tag(field)
    T = W.T(main['tag'], et, size, main['tag'])
    exit_status = None if info is None else info['exit']
    thr = W.tol*W.nb
    if zero_source:
        out['stats']['zero'] = 1
        # A3: all-zero field, also in the caller's object; exit 0
        if info is not None and info['exit'] != 0:
            finding('zero: zero source not reported as success',
                    "zero source => exit 0", str(info['exit_message']), None)
        if ret is not None and np.any(np.asarray(ret.field) != 0):
            finding('zero: zero source returns a non-zero field',
                    "zero source => zero field", '', None)
        if supplied is not None and np.any(np.asarray(supplied.field) != 0):
            r2, m2 = c.check(label='zero-source witness')
            finding("zero: zero source with a caller-supplied field leaves "
                    "the caller's field non-zero",
                    "zero source => caller's field is all zero",
                    f"max|e|={np.abs(supplied.field).max()}; "
                    f"returned={'field' if ret is not None else 'nothing'}",
                    m2)
        return out
    if info is None:
        # without info no success claim is observable; exit unknown
        # -> nothing to check beyond PEC/dtype
        pass
    else:
        if exit_status == 0:
            out['stats']['exit0'] = 1
            brk = [f for f in res.get('flags', []) if 'breakdown' in f]
            route = _route(cfg)
            floor = z3.fpLT(thr.t, z3.FPVal(1e-30, _F))
            # SciPy's own stopping tests are '<' (bicgstab, cgs) and '<='
            # (gcrotmk): for sslsolver runs "below" is read as '<='.
            below = z3.fpLEQ(T.t, thr.t) if cfg['sslsolver'] else \
                z3.fpLT(T.t, thr.t)
            ae = info['abs_error']
            same = ae.same_as(T) if isinstance(ae, F64) else z3.BoolVal(False)
            # A1: true residual of the returned content below tol*||b||
            kind1 = 'breakdown-leak' if brk else 'success:'
            v, m = vq(B(z3.Or(floor, below)), kind1)
            if v == 'cex':
                if brk:
                    finding("breakdown-leak: exit 0 after a Krylov breakdown"
                            " code because the multigrid preconditioner "
                            "left exit_message='CONVERGED'",
                            "success => residual < tol*||b||",
                            f"{route}; msg={info['exit_message']!r}", m)
                else:
                    finding(f"success: exit 0 but residual of returned field"
                            f" not < tol*||b|| ({route})",
                            "success => residual < tol*||b||",
                            f"returned content tag {et}; evaluated by code: "
                            f"{(main['tag'], et, size) in res['log']}; "
                            f"msg={info['exit_message']!r}", m)
            elif v == 'unknown':
                out['unknown'].append('A1 unknown')
            # A2: reported abs_error is the residual of that very field
            v2, m2 = ('skip', None) if v in ('cex', 'dup') else \
                vq(B(z3.Or(floor, same)), 'figures')
            if v2 == 'cex':
                finding(f"figures: exit 0 but abs_error is not the residual "
                        f"of the returned field ({route})",
                        "error figures describe the returned field",
                        f"abs_error={ae!r} vs truth of content tag {et}; "
                        f"evaluated by code: "
                        f"{(main['tag'], et, size) in res['log']}", m2)
            elif v2 == 'unknown':
                out['unknown'].append('A2 unknown')
            # the atol=1e-30 floor of the Krylov call, classified apart
            if v == 'held' and v2 == 'held':
                v3, m3 = vq(B(z3.And(below, same)), 'success-floor')
                if v3 == 'cex':
                    finding("success-floor: sslsolver success when "
                            "tol*||b|| < 1e-30 (atol floor): residual not "
                            "< tol*||b|| or stale error figure",
                            "success => residual < tol*||b||",
                            f"{route}", m3)
                # (unknown here only means the floor region could not be
                #  classified on this path; the claim itself carries the
                #  assumption tol*||b|| >= 1e-30 for sslsolver runs)
        else:
            out['stats']['exit1'] = 1
            if not info['exit_message']:
                finding('failure: exit 1 without message',
                        "failure carries a message", '', None)
    # A4: PEC on the returned/supplied field, dtype
    arr = np.asarray(field.field)
    if np.any(arr[bnd_idx] != 0):
        finding('pec: tangential boundary entries not zero after solve',
                "PEC on the returned field", f"supplied={cfg['supplied']}",
                None)
    if arr.dtype != sfield.field.dtype:
        finding('dtype: returned field dtype differs from source dtype',
                "dtype", f"{arr.dtype} vs {sfield.field.dtype}", None)
    return out


def _route(cfg):
    return (f"sslsolver={cfg['sslsolver']} "
            f"{'with' if cfg['cycle'] else 'without'} multigrid")


# --------------------------------------------------------------------------
# replay on the real package (public API)
# --------------------------------------------------------------------------
def replay(cex):
    import emg3d
    kind = cex['kind']
    cfg = cex['cfg']
    if kind == 'zero':
        hx = np.ones(4)
        grid = emg3d.TensorMesh([hx, hx, hx], (0, 0, 0))
        model = emg3d.Model(grid, 1.0)
        sfield = emg3d.Field(grid, frequency=1.0)
        ef = emg3d.Field(grid, frequency=1.0)
        ef.field[:] = 1.0+1j
        info = emg3d.solve(model, sfield, efield=ef, return_info=True,
                           sslsolver=cfg['sslsolver'], cycle=cfg['cycle'],
                           semicoarsening=cfg['sc'], linerelaxation=cfg['lr'],
                           verb=0, log=-1)
        mx = float(np.abs(ef.field).max())
        return (info['exit'] == 0 and mx > 0), (
            f"zero source + supplied field: exit={info['exit']} "
            f"({info['exit_message']}), max|e| of the caller's field = {mx}")
    if kind in ('figures', 'success', 'pec', 'dtype', 'failure',
                'exception', 'interface'):
        ok, desc = _replay_model(cex)
        if ok or kind not in ('figures', 'success'):
            return ok, desc
        ok2, desc2 = _replay_search(cfg, kind)
        return ok2, (desc2 if ok2 else desc + ' | ' + desc2)
    if kind == 'success-floor':
        return _replay_floor(cfg)
    if kind == 'breakdown-leak':
        return _replay_breakdown(cfg)
    return False, f"no replay for {kind}"


def _true_residual(emg3d, model, sfield, efield):
    """Checker-side residual norm: own assembled operator (harness.fit)."""
    from . import fit
    vm = emg3d.models.VolumeModel(model, sfield)
    shape = model.grid.shape_cells
    h = vm.grid.h
    e = [efield.fx, efield.fy, efield.fz]
    ref = fit.apply(h, [vm.eta_x, vm.eta_y, vm.eta_z], vm.zeta, e, 0.0)
    s = [sfield.fx, sfield.fy, sfield.fz]
    tot = 0.0
    for (d, idx), v in ref.items():
        tot += abs(s[d][idx]-v)**2
    for d in range(3):
        for idx in fit.boundary_edges(shape, d):
            tot += abs(s[d][idx])**2
    return float(np.sqrt(tot))


_SEARCH_CACHE = {}


def _replay_model(cex):
    """Replay seeded from the solver model: the real solve() on a concrete
    problem whose ||b|| and tol are the model's values; every concrete
    clause of the property is evaluated with the checker's own residual."""
    import emg3d
    cfg = cex['cfg']
    vals = cex.get('values') or {}
    tol = vals.get('tol')
    if not (isinstance(tol, float) and 1e-12 < tol < 1e-2):
        tol = 1e-6
    hx = np.array([10., 12., 9., 11., 10., 13., 10., 9.])
    grid = emg3d.TensorMesh([hx, hx, hx], (0, 0, 0))
    model = emg3d.Model(grid, 1.0)
    freq = cfg.get('freq', 1.0)
    sfield = emg3d.get_source_field(grid, (40.1, 38.3, 42.2, 20, 30), freq)
    nb0 = float(np.linalg.norm(sfield.field))
    nb = vals.get('nb')
    if isinstance(nb, float) and nb == nb and 0 < nb < float('inf') and \
            not (1e-20 < nb < 1e20):
        sfield.field *= nb/nb0
    kw = dict(sslsolver=cfg['sslsolver'], cycle=cfg['cycle'],
              semicoarsening=cfg['sc'], linerelaxation=cfg['lr'], tol=tol,
              maxit=50, verb=0, log=-1, return_info=True,
              nu_init=cfg['nu_init'], clevel=cfg['clevel'])
    supplied = None
    if cfg['supplied']:
        supplied = emg3d.Field(grid, frequency=freq)
        supplied.field[:] = 1.0
        kw['efield'] = supplied
        kw['always_return'] = True
    try:
        ef, info = emg3d.solve(model, sfield, **kw)
    except Exception as e:     # noqa
        return True, f"real solve raised {e!r}"
    field = supplied if supplied is not None else ef
    msgs = []
    ref = float(np.linalg.norm(sfield.field))
    true = _true_residual(emg3d, model, sfield, field)
    bnd = _boundary_index(emg3d, grid)
    if np.any(np.asarray(field.field)[bnd] != 0):
        msgs.append("tangential boundary entries of the resulting field "
                    "are not zero")
    if field.field.dtype != sfield.field.dtype:
        msgs.append(f"dtype {field.field.dtype} vs {sfield.field.dtype}")
    if info['exit'] == 0:
        lim = tol*ref
        if ref >= 100*np.finfo(float).tiny and (
                true > lim*(1+1e-6) if cfg['sslsolver'] else true >= lim) \
                and not (cfg['sslsolver'] and lim < 1e-30):
            msgs.append(f"exit=0 but residual of the resulting field "
                        f"{true:.3e} is not below tol*||b||={lim:.3e}")
        rep = info['abs_error']
        if ref >= 100*np.finfo(float).tiny and \
                abs(rep-true) > 1e-3*max(rep, true) and \
                not (cfg['sslsolver'] and lim < 1e-30):
            msgs.append(f"exit=0, abs_error={rep:.6e} but the resulting "
                        f"field's residual is {true:.6e}")
    elif not info['exit_message']:
        msgs.append("exit=1 without message")
    if not msgs and cfg['supplied'] and ref >= 100*np.finfo(float).tiny:
        # second scenario: the supplied field is ALREADY converged but
        # carries non-zero tangential boundary values (a warm start from a
        # larger domain); the upper boundary edges enter no residual row
        try:
            kw2 = dict(kw)
            kw2.pop('efield', None)
            kw2['always_return'] = True
            kw2['maxit'] = 200
            good, info0 = emg3d.solve(model, sfield, **kw2)
            if info0['exit'] == 0:
                warm = emg3d.Field(grid, data=good.field.copy(),
                                   frequency=freq)
                amp = float(np.abs(good.field).max()) or 1.0
                warm.fx[:, -1, -1] = amp
                warm.fy[-1, :, -1] = amp
                warm.fz[-1, -1, :] = amp
                kw3 = dict(kw)
                kw3['efield'] = warm
                out = emg3d.solve(model, sfield, **kw3)
                info3 = out[1] if isinstance(out, tuple) else out
                if np.any(np.asarray(warm.field)[bnd] != 0):
                    msgs.append(
                        f"already converged supplied field: exit="
                        f"{info3['exit']} ({info3['exit_message']}) but its "
                        f"tangential boundary entries are not zero")
        except Exception as e:     # noqa
            msgs.append(f"warm-start scenario raised {e!r}"[:200])
    return bool(msgs), (f"real solve(||b||={ref:.3e}, tol={tol:g}, "
                        f"{_route(cfg)}, supplied={cfg['supplied']}): " +
                        ('; '.join(msgs) if msgs else 'all clauses hold'))


def _replay_search(cfg, kind, nseeds=30):
    ck = (kind, cfg['sslsolver'], cfg['cycle'] is None)
    if ck not in _SEARCH_CACHE:
        _SEARCH_CACHE[ck] = _replay_search0(cfg, kind, nseeds)
    return _SEARCH_CACHE[ck]


def _replay_search0(cfg, kind, nseeds=30):
    """Bounded search for a concrete problem showing the behaviour with the
    real SciPy solver (DESIGN §5.3)."""
    import emg3d
    worst = None
    for sd in range(nseeds):
        rng = np.random.default_rng(sd)
        n = 8
        hx = rng.uniform(0.8, 1.5, n)*10
        grid = emg3d.TensorMesh([hx, hx, hx], (0, 0, 0))
        model = emg3d.Model(grid, 10**rng.uniform(-1, 1, grid.shape_cells))
        sfield = emg3d.get_source_field(
            grid, (40.1, 38.3, 42.2, 20, 30), 1.0)
        for tol in (1e-4, 1e-5):
            kw = dict(sslsolver=cfg['sslsolver'], cycle=cfg['cycle'],
                      semicoarsening=cfg['sc'], linerelaxation=cfg['lr'],
                      tol=tol, maxit=500, verb=0, log=-1, return_info=True)
            try:
                ef, info = emg3d.solve(model, sfield, **kw)
            except Exception:     # noqa
                continue
            if info['exit'] != 0:
                continue
            true = _true_residual(emg3d, model, sfield, ef)
            ref = info['ref_error']
            rep = info['abs_error']
            if kind == 'figures' and abs(rep-true) > 1e-6*max(rep, true) \
                    and abs(rep-true) > 0.02*true:
                return True, (
                    f"real solve(seed={sd}, tol={tol}, {_route(cfg)}): "
                    f"exit=0, reported abs_error={rep:.6e} "
                    f"(rel {rep/ref:.3e}) but the returned field's residual "
                    f"is {true:.6e} (rel {true/ref:.3e})")
            if kind == 'success' and true >= tol*ref*(1+1e-6):
                return True, (
                    f"real solve(seed={sd}, tol={tol}, {_route(cfg)}): "
                    f"exit=0 but residual of returned field {true:.6e} >= "
                    f"tol*||b|| = {tol*ref:.6e}")
            worst = (sd, tol, rep, true)
    return False, f"not provoked with the real SciPy solver in {nseeds} " \
                  f"seeds (last {worst})"


def _replay_floor(cfg):
    import emg3d
    hx = np.ones(8)*10
    grid = emg3d.TensorMesh([hx, hx, hx], (0, 0, 0))
    model = emg3d.Model(grid, 1.0)
    sfield = emg3d.get_source_field(grid, (40.1, 38.3, 42.2, 20, 30), 1.0)
    nb0 = float(np.linalg.norm(sfield.field))
    sfield.field *= 1e-31/nb0
    tol = 1e-6
    ef, info = emg3d.solve(model, sfield, sslsolver=cfg['sslsolver'],
                           cycle=cfg['cycle'], semicoarsening=cfg['sc'],
                           linerelaxation=cfg['lr'], tol=tol, maxit=50,
                           verb=0, log=-1, return_info=True)
    true = _true_residual(emg3d, model, sfield, ef)
    ref = info['ref_error']
    bad = info['exit'] == 0 and (true > tol*ref or
                                 info['abs_error'] != true)
    return bad, (f"source scaled to ||b||=1e-31, tol=1e-6, {_route(cfg)}: "
                 f"exit={info['exit']} ({info['exit_message']}), reported "
                 f"abs_error={info['abs_error']!r}, residual of the returned "
                 f"field {true:.3e} vs tol*||b||={tol*ref:.3e}")


def _replay_breakdown(cfg):
    """Environment-contract replay: the real SciPy solver is wrapped so that
    it applies the real preconditioner once to a small vector (as SciPy does
    near convergence) and then returns its documented breakdown code."""
    import emg3d
    import scipy.sparse.linalg as ssl
    name = cfg['sslsolver'] if cfg['sslsolver'] in ('bicgstab', 'cgs') \
        else 'bicgstab'
    real = getattr(ssl, name)

    def wrapped(A=None, b=None, x0=None, M=None, **kw):
        M.matvec(b*1e-12)
        return x0, -10
    hx = np.ones(8)*10
    grid = emg3d.TensorMesh([hx, hx, hx], (0, 0, 0))
    model = emg3d.Model(grid, 1.0)
    sfield = emg3d.get_source_field(grid, (40.1, 38.3, 42.2, 20, 30), 1.0)
    setattr(ssl, name, wrapped)
    try:
        ef, info = emg3d.solve(model, sfield, sslsolver=name,
                               cycle=cfg['cycle'] or 'F', semicoarsening=0,
                               linerelaxation=0, tol=1e-6, verb=0, log=-1,
                               return_info=True)
    finally:
        setattr(ssl, name, real)
    true = _true_residual(emg3d, model, sfield, ef)
    ref = info['ref_error']
    bad = info['exit'] == 0 and true > 1e-6*ref
    return bad, (f"{name} wrapped to return its breakdown code -10 after one "
                 f"preconditioner application to a small vector: exit="
                 f"{info['exit']} ({info['exit_message']!r}), residual of "
                 f"the returned field {true/ref:.3e} * ||b||")


def _dispatch(job):
    return globals()[job[0]](job[1])


def configs(tier):
    base = dict(sc=0, lr=0, nu_init=0, clevel=-1, supplied=False,
                return_info=True, maxit=2)
    out = []

    def add(**kw):
        d = dict(base)
        d.update(kw)
        if d['cycle'] is None and not d['sslsolver']:
            return
        t = tuple(sorted(d.items()))
        if t not in out:
            out.append(t)
    cycles = ('F', 'V', 'W', None)
    ssls = (False, 'bicgstab', 'cgs', 'gcrotmk')
    if tier == 'quick':
        for cyc in ('F', None):
            for ssl in ssls:
                for sup in (False, True):
                    add(cycle=cyc, sslsolver=ssl, supplied=sup,
                        maxit=1 if (ssl and cyc) else 2)
        add(cycle='V', sslsolver=False, sc=True, lr=True, maxit=2)
        add(cycle='W', sslsolver=False, sc=1213, lr=7, nu_init=1,
            supplied=True)
        add(cycle='F', sslsolver='bicgstab', sc=True, lr=True, maxit=1)
        add(cycle='V', sslsolver='cgs', sc=12, lr=0, clevel=0, maxit=1)
        add(cycle='F', sslsolver=False, clevel=1, return_info=False,
            supplied=True)
        add(cycle='F', sslsolver=False, supplied=True, always_return=True)
    else:
        # per-configuration path budget: generous, the thorough tier is
        # also run next to other checks (a smaller budget was exhausted
        # with prefixes pending => inconclusive, never "held")
        base['budget'] = 2400
        for cyc in cycles:
            for ssl in ssls:
                for sup in (False, True):
                    add(cycle=cyc, sslsolver=ssl, supplied=sup)
                    # (multigrid as preconditioner WITH semicoarsening and
                    # line relaxation: one Krylov step; two exhausted a
                    # 900 s path budget per configuration)
                    add(cycle=cyc, sslsolver=ssl, supplied=sup, sc=True,
                        lr=True, maxit=(1 if cyc else 2) if ssl else 3)
        for sc, lr in [(1, 0), (0, 7), (1213, 47), (30, 1234567)]:
            for cyc in ('F', 'W'):
                add(cycle=cyc, sslsolver=False, sc=sc, lr=lr, maxit=2)
                add(cycle=cyc, sslsolver='bicgstab', sc=sc, lr=lr, maxit=1)
        for cl in (0, 1):
            for ni in (0, 1):
                add(cycle='F', sslsolver=False, clevel=cl, nu_init=ni,
                    supplied=True)
        add(cycle='F', sslsolver=False, return_info=False, supplied=True)
        add(cycle='F', sslsolver=False, supplied=True, always_return=True)
        add(cycle='V', sslsolver=False, freq=-1.0)
        add(cycle=None, sslsolver='bicgstab', freq=-1.0, supplied=True)
    return out


def dtype_checks():
    """Concrete: dtype mismatch raises; Laplace-domain field is real."""
    import emg3d
    hx = np.ones(4)
    grid = emg3d.TensorMesh([hx, hx, hx], (0, 0, 0))
    model = emg3d.Model(grid, 1.0)
    sf = emg3d.get_source_field(grid, (2, 2, 2, 0, 0), 1.0)
    ef = emg3d.Field(grid, frequency=-1.0)
    try:
        emg3d.solve(model, sf, efield=ef, verb=0)
        raised = False
    except ValueError:
        raised = True
    sfl = emg3d.get_source_field(grid, (2, 2, 2, 0, 0), -1.0)
    e2 = emg3d.solve(model, sfl, verb=0, plain=True)
    return raised, e2.field.dtype == np.float64


def main(tier):
    shadow.load()
    run = Run(PID, tier, design_ref='DESIGN.md §6 C01')
    run.functions.update(shadow.func_lines(
        'emg3d/solver.py', ['solve', 'multigrid', 'krylov', '_terminate',
                            'MGParameters', '_current_sc_dir',
                            '_print_cycle_info']))
    run.extra['hashes'] = {k: v for k, v in shadow.hashes().items()
                           if k == 'emg3d/solver.py'}
    cfgs = configs(tier)
    jobs = [('case_config', t) for t in cfgs]
    obs = pmap(_dispatch, jobs)
    run.add(obs)
    raised, real_ok = dtype_checks()
    run.add(ob("dtype mismatch between source and supplied field raises; "
               "Laplace-domain solve returns a real field (concrete)",
               'held' if raised and real_ok else 'cex', cls='concrete',
               group='dtype', nontrivial=False,
               key='dtype: mismatch accepted or wrong result dtype',
               cex=None if raised and real_ok else dict(
                   kind='dtype', cfg={}, note=f"{raised} {real_ok}")))
    run.bounds = dict(
        configurations=len(cfgs), maxit="<= 2 (thorough 3) fine-grid cycles",
        krylov_iterations="<= maxit (1..2)",
        symbolic="tol (0<tol<1), ||b|| (>= 0 finite), the true residual "
                 "norm of every distinct field content (Float64, may be NaN/"
                 "inf), Krylov breakdown choices",
        grid="4x4x4 concrete (numerics stubbed; only the hierarchy depth "
             "matters)")
    run.assumptions = [
        "smoothing, restriction, prolongation change field contents "
        "arbitrarily (fresh content tag) and keep PEC (C03/C04)",
        "in exact arithmetic a Krylov solver's recurrence residual is the "
        "true residual of its iterate (floating-point drift outside)",
        "Krylov processes follow the SciPy 1.18.1 sources in /venv: "
        "bicgstab (top test, rho/rv breakdown -10/-11, half-step exit "
        "without call-back), cgs (top test, breakdowns), gcrotmk (call-back "
        "first, <= test, LinAlgError -> info>0)",
        "exit 0 is accepted iff residual < tol*||b|| (strict) for multigrid "
        "runs and <= tol*||b|| for sslsolver runs (SciPy's own tests are < "
        "for bicgstab/cgs and <= for gcrotmk)",
        "for sslsolver runs tol*||b|| >= 1e-30 is assumed (emg3d passes "
        "atol=1e-30 to SciPy); the region below is classified separately "
        "and is a known finding",
    ]
    run.stubs = [
        "solver.residual -> one Float64 per (rhs content, field content)",
        "solver.smoothing/prolongation -> re-tag; solver.restriction -> "
        "coarse shape contract", "scipy.linalg.norm(sfield) -> ||b|| symbol",
        "scipy.sparse.linalg.{bicgstab,cgs,gcrotmk} -> nondeterministic "
        "processes", "MGParameters.error_at_cycle -> object array (holds "
        "symbolic doubles)"]
    run.outside = ["that the numerics deliver what the stubs promise "
                   "(C02-C04)", "Krylov floating-point drift",
                   "SciPy versions other than 1.18", "maxit > 3"]
    run.explanation = (
        "solve/multigrid/krylov/_terminate are executed path by path on "
        "symbolic IEEE-754 doubles (z3 QF_FP); every comparison in the code "
        "forks the explorer; on every finished path z3 decides that exit=0 "
        "implies the true residual of the returned content is < tol*||b|| "
        "and equals the reported abs_error, that a zero source yields zero "
        "fields (also in the caller's object), PEC/dtype, and that failures "
        "carry a message.  Counterexamples are replayed through the public "
        "API with the real SciPy solvers.")
    for o in obs[:3]:
        run.sample(dict(group=o['group'], label=o['label'],
                        verdict=o['verdict'], note=o['note']))
    return run.finish(replay)
