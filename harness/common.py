"""Shared harness infrastructure: obligations, evidence, replay, findings."""
import os
import sys
import json
import time
import hashlib
import traceback
import multiprocessing as mp

VERIF = os.path.dirname(os.path.dirname(os.path.abspath(__file__)))
# evidence / replays go to $VERIF_OUT if set (isolated mutant runs)
OUT = os.environ.get('VERIF_OUT') or VERIF
REPO = os.environ.get('EMG3D_REPO', '/repo')
EXIT_HELD, EXIT_VIOLATION, EXIT_INCONCLUSIVE = 0, 1, 2


def seed():
    try:
        return int(os.environ.get('VERIF_SEED', '0'))
    except ValueError:
        return 0


def ncpu():
    try:
        return max(1, min(16, len(os.sched_getaffinity(0))))
    except Exception:
        return max(1, min(16, os.cpu_count() or 1))


class Ob(dict):
    """One proof obligation / query result (plain dict, picklable)."""


def ob(label, verdict, cls='POLY-ID', seconds=0.0, group='', nontrivial=True,
       cex=None, note='', key=None):
    """verdict in held | cex | unknown | twin_sat | twin_unsat | error."""
    return Ob(label=label, verdict=verdict, cls=cls,
              seconds=round(float(seconds), 4), group=group,
              nontrivial=bool(nontrivial), cex=cex, note=note, key=key)


def load_known_findings():
    p = os.path.join(VERIF, 'known_findings.json')
    if not os.path.exists(p):
        return []
    with open(p) as f:
        return json.load(f).get('findings', [])


class Run:
    """Collects obligations of one check run and writes the evidence file."""

    def __init__(self, pid, tier, functions=None, design_ref=''):
        self.pid = pid
        self.tier = tier
        self.t0 = time.time()
        self.obs = []
        self.functions = dict(functions or {})
        self.bounds = {}
        self.assumptions = []
        self.stubs = []
        self.outside = []
        self.samples = []
        self.validation = []
        self.notes = []
        self.design_ref = design_ref
        self.solver_s = 0.0
        self.errors = []
        self.replayed = []     # (key, path, reproduced, description)
        self.explanation = ''
        self.extra = {}
        # generated replay files of earlier runs of this property
        d = os.path.join(OUT, 'replays')
        if os.path.isdir(d):
            for f in os.listdir(d):
                if f.startswith(pid+'-') and f.endswith('.json'):
                    try:
                        os.remove(os.path.join(d, f))
                    except OSError:
                        pass

    # ------------------------------------------------------------------
    def add(self, obs):
        if isinstance(obs, dict):
            obs = [obs]
        for o in obs:
            self.obs.append(o)
            self.solver_s += o.get('seconds', 0.0)

    def error(self, msg):
        self.errors.append(msg)

    def sample(self, s):
        if len(self.samples) < 8:
            self.samples.append(s)

    # ------------------------------------------------------------------
    def finish(self, replay_fn=None):
        """Replay counterexamples, write evidence, print verdict, return rc.

        replay_fn(cex) -> (reproduced: bool, description: str) runs the
        counterexample against the real, unmodified emg3d package.
        """
        # second opinion: a sample of discharged obligations through cvc5
        if self.pid in XCHECK:
            smp = []
            for o in self.obs:
                if o.get('smt2'):
                    smp.extend(o.pop('smt2'))
            if smp:
                import random
                random.Random(seed()).shuffle(smp)
                t0 = time.time()
                xc = crosscheck_cvc5(smp[:5], timeout_s=20)
                self.validation.append(dict(
                    what="cvc5 1.0.3 second opinion on SMT-LIB2 exports of "
                         "discharged obligations (z3: unsat)", results=xc,
                    agree=all(x['cvc5'] == 'unsat' for x in xc),
                    seconds=round(time.time()-t0, 2)))
                if any(x['cvc5'] == 'sat' for x in xc):
                    self.error("cvc5 disagrees with z3 on a discharged "
                               "obligation")
        for o in self.obs:
            o.pop('smt2', None)
        known = [k for k in load_known_findings()
                 if k.get('property') == self.pid]
        known_keys = {k['key']: k for k in known if k.get('status') == 'known'}
        cexs = [o for o in self.obs if o['verdict'] == 'cex']
        unknowns = [o for o in self.obs if o['verdict'] in ('unknown',
                                                            'error')]
        twins_bad = [o for o in self.obs if o['verdict'] == 'twin_unsat']
        violations = []
        known_hit = {}
        nonrepro = []
        # replay each distinct counterexample key once
        seen = {}
        self.unreplayed = 0
        tried = {}
        for i_o, o in enumerate(cexs):
            key = o.get('key') or o['label']
            if key in seen:
                # an earlier witness of this class did not reproduce: try up
                # to three further witnesses of the same class before the
                # class is declared non-reproducing
                if seen[key] is not None or tried.get(key, 0) >= 4 or \
                        replay_fn is None or o.get('cex') is None:
                    continue
            elif len(seen) >= 12:
                seen[key] = o
                self.unreplayed += 1
                continue
            reproduced, desc, path = True, o.get('note', ''), None
            if replay_fn is not None and o.get('cex') is not None:
                tried[key] = tried.get(key, 0)+1
                try:
                    reproduced, desc = replay_fn(o['cex'])
                except Exception as e:   # noqa
                    reproduced, desc = False, f"replay raised {e!r}"
                    traceback.print_exc()
            if not reproduced and tried.get(key, 0) < 4 and any(
                    (o2.get('key') or o2['label']) == key and o2 is not o
                    and o2.get('cex') is not None and o2.get('cex') !=
                    o.get('cex') for o2 in cexs[i_o+1:]):
                seen[key] = None          # keep trying other witnesses
                self.notes.append(f"a witness of class '{key}' did not "
                                  f"reproduce on the real code ({desc[:160]}); "
                                  f"trying another witness of the same class")
                continue
            seen[key] = o
            nonrepro[:] = [x for x in nonrepro if x[0] != key]
            if o.get('cex') is not None:
                path = self._write_replay(key, o, desc)
            self.replayed.append(dict(key=key, path=path,
                                      reproduced=bool(reproduced),
                                      description=desc))
            if not reproduced:
                nonrepro.append((key, desc))
            elif key in known_keys:
                known_hit[key] = desc
            else:
                violations.append((key, path, desc))

        rc = EXIT_HELD
        for key, desc in known_hit.items():
            print(f"KNOWN-FINDING: property={self.pid} {key}: "
                  f"{known_keys[key].get('description', desc)}")
        if violations:
            rc = EXIT_VIOLATION
            for key, path, desc in violations[:6]:
                print(f"VIOLATION property={self.pid} replay={path}")
                print(f"  {key}: {desc}")
            more = len(violations)-6+self.unreplayed
            if more > 0:
                print(f"  ... and {more} more distinct counterexample "
                      f"classes (see evidence file)")
        elif nonrepro or unknowns or twins_bad or self.errors:
            rc = EXIT_INCONCLUSIVE
            for key, desc in nonrepro:
                print(f"HARNESS-ERROR property={self.pid} counterexample "
                      f"does not reproduce on the real code: {key}: {desc}")
            for o in unknowns[:10]:
                print(f"INCONCLUSIVE property={self.pid} {o['label']}: "
                      f"{o['verdict']} {o.get('note', '')}")
            for o in twins_bad[:10]:
                print(f"VACUOUS property={self.pid} reachability twin not "
                      f"satisfiable: {o['label']}")
            for e in self.errors[:10]:
                print(f"HARNESS-ERROR property={self.pid} {e}")
        self._write_evidence(len(violations), known_hit, rc)
        held = sum(1 for o in self.obs if o['verdict'] == 'held')
        print(f"[{self.pid} {self.tier}] obligations={len(self.obs)} "
              f"held={held} cex={len(cexs)} unknown={len(unknowns)} "
              f"solver_s={self.solver_s:.1f} wall_s={time.time()-self.t0:.1f}"
              f" rc={rc}")
        return rc

    # ------------------------------------------------------------------
    def _write_replay(self, key, o, desc):
        d = os.path.join(OUT, 'replays')
        os.makedirs(d, exist_ok=True)
        blob = json.dumps(o['cex'], sort_keys=True, default=str)
        h = hashlib.sha256((key+blob).encode()).hexdigest()[:10]
        path = os.path.join(d, f"{self.pid}-{h}.json")
        with open(path, 'w') as f:
            json.dump(dict(property=self.pid, key=key, label=o['label'],
                           description=desc, cex=o['cex']), f, indent=1,
                      default=str)
        return path

    def _write_evidence(self, nviol, known_hit, rc):
        by_cls = {}
        for o in self.obs:
            d = by_cls.setdefault(o['cls'], {})
            d[o['verdict']] = d.get(o['verdict'], 0)+1
        groups = {}
        for o in self.obs:
            g = groups.setdefault(o['group'] or 'all', dict(
                obligations=0, held=0, cex=0, unknown=0, twin_sat=0))
            g['obligations'] += 1
            if o['verdict'] in g:
                g[o['verdict']] += 1
        distinct = len({(o['group'], o['label']) for o in self.obs
                        if o['nontrivial'] and
                        o['verdict'] in ('held', 'cex', 'twin_sat')})
        slow = sorted(self.obs, key=lambda o: -o['seconds'])[:5]
        ev = {
            'property_id': self.pid,
            'tier': self.tier,
            'seed': seed(),
            'level': 'other',
            'wall_s': round(time.time()-self.t0, 2),
            'violations': nviol,
            'assumptions': self.assumptions + [
                f"stub: {s}" for s in self.stubs],
            'coverage': {
                'explanation': self.explanation,
                'evaluations': max(1, len(self.obs)),
                'distinct_nontrivial': distinct,
                'rule': (
                    "one evaluation = one SMT query discharged (negated "
                    "obligation or reachability twin); distinct & "
                    "non-trivial = distinct (group,label) obligations whose "
                    "formula mentions at least one symbolic input and that "
                    "the solver answered (unsat for the negation, or sat for "
                    "a twin)"),
                'samples': self.samples,
                'exhaustive': False,
                'functions_encoded': self.functions,
                'source_hashes': self.extra.get('hashes', {}),
                'bounds': self.bounds,
                'outside_claim': self.outside,
                'queries_by_class': by_cls,
                'queries_by_group': groups,
                'solver_time_s': round(self.solver_s, 2),
                'slowest_queries': [
                    dict(label=o['label'], group=o['group'],
                         seconds=o['seconds'], verdict=o['verdict'])
                    for o in slow],
                'replayed_counterexamples': self.replayed,
                'known_findings_confirmed': sorted(known_hit),
                'validation': self.validation,
                'notes': self.notes,
                'exit_code': rc,
                'design_ref': self.design_ref,
            },
        }
        ev['coverage'].update({k: v for k, v in self.extra.items()
                               if k != 'hashes'})
        d = os.path.join(OUT, 'evidence')
        os.makedirs(d, exist_ok=True)
        with open(os.path.join(d, f"{self.pid}.json"), 'w') as f:
            json.dump(ev, f, indent=1, default=str)


# ----------------------------------------------------------------------
def crosscheck_cvc5(samples, timeout_s=30):
    """Second opinion: run SMT-LIB2 texts of discharged obligations through
    the cvc5 binary.  Returns list of dict(label, z3='unsat', cvc5=...)."""
    import subprocess
    import tempfile
    import shutil
    exe = shutil.which('cvc5')
    out = []
    if not exe:
        return [dict(label='-', z3='-', cvc5='cvc5 binary not found')]
    d = tempfile.mkdtemp(prefix='cvc5x_')
    try:
        for k, (label, text) in enumerate(samples):
            fn = os.path.join(d, f"q{k}.smt2")
            with open(fn, 'w') as f:
                f.write("(set-logic ALL)\n"+text)
            try:
                r = subprocess.run([exe, f"--tlimit={timeout_s*1000}", fn],
                                   capture_output=True, text=True,
                                   timeout=timeout_s+10)
                ans = (r.stdout.strip().splitlines() or ['?'])[0]
                if '(error' in r.stdout or r.returncode not in (0, 1) and \
                        ans not in ('sat', 'unsat', 'unknown'):
                    ans = 'inconclusive: '+(r.stdout+r.stderr)[:120]
            except subprocess.TimeoutExpired:
                ans = 'timeout'
            out.append(dict(label=label, z3='unsat', cvc5=ans))
    finally:
        shutil.rmtree(d, ignore_errors=True)
    return out


XCHECK = ('C03', 'C04', 'C07', 'C08', 'C09', 'C10', 'C15', 'C16', 'C19')


def _call(args):
    fn, case = args
    t0 = time.time()
    try:
        out = fn(case)
        # SMT-LIB2 samples of discharged obligations (if enabled)
        try:
            import symx
            cx = symx.core._CTX[0]
            if cx is not None and cx.sample_smt2:
                smp = [(lab, txt) for lab, txt in cx.sample_smt2
                       if len(txt) < 400000 and 'FloatingPoint' not in txt
                       and 'String' not in txt][:1]
                if smp and out:
                    out[0]['smt2'] = smp
                cx.sample_smt2 = []
        except Exception:     # noqa
            pass
        return out
    except BaseException as e:   # noqa  (path-steering are BaseException)
        tb = traceback.format_exc()
        return [ob(f"case {case!r}", 'error', cls='-', group='error',
                   seconds=time.time()-t0, note=f"{e!r}\n{tb[-1500:]}")]


def pmap(fn, cases, procs=None, fresh=False):
    """Run fn(case)->list[Ob] over cases in forked workers; flat list.
    fresh=True: one worker process per case (solver state - z3's global
    term table, fresh-name counters - left by earlier cases changes the
    run time of nonlinear queries by an order of magnitude)."""
    cases = list(cases)
    procs = procs or ncpu()
    if procs <= 1 or len(cases) <= 1:
        out = []
        for c in cases:
            out.extend(_call((fn, c)))
        return out
    ctx = mp.get_context('fork')
    with ctx.Pool(min(procs, len(cases)), maxtasksperchild=1 if fresh else 8) as pool:
        out = []
        for r in pool.imap_unordered(_call, [(fn, c) for c in cases],
                                     chunksize=1):
            out.extend(r)
    return out
