"""C16 — automatic gridding meets its postconditions or fails loudly
(one-direction core, bounded).

Real code (shadow): meshes.origin_and_widths and meshes._stretch — the
per-direction routine that construct_mesh calls three times — executed
path by path with the grid centre, the survey domain (or distances), the
minimum cell width, the two wavelengths and the maximum buffer as symbolic
reals.  skin_depth / cell_width / wavelength (float power laws) are stubs
returning those symbols; cell numbers and the stretching pair are concrete
and SMALL (that bounds the search over `linspace` candidates; every
comparison inside `_stretch` forks).  On every path that returns a mesh z3
decides the postconditions stated in the property:
  * the number of cells is one of the permitted cell counts;
  * all widths are positive;
  * the mesh covers the survey domain plus the wavelength-based buffer,
    capped by the maximum buffer (both definitions of the buffer);
  * neighbouring widths never grow faster than the larger stretching factor;
  * the centre lies on a node (center_on_edge) or on a cell centre.
Paths that end in the RuntimeError ("no suitable grid") are counted; that an
error is raised ONLY if no mesh exists is outside (completeness of the
search), as are `vector`, `seasurface`, realistic stretching pairs / cell
number lists, estimate_gridding_opts and construct_mesh's routing.
"""
import time
import warnings
from fractions import Fraction

import numpy as np
import z3

import symx
from symx import Q, B, Ctx, set_ctx, State, shadow, Inconclusive
from symx.proxies import _Namespace
from .common import ob, Run, pmap

PID = 'C16'


def case_direction(case):
    stretching, cells, coe, lfc, use_dist = case[:5]
    with_vec = len(case) > 5 and case[5] == 'vector'
    E = shadow.load()
    c = set_ctx(Ctx(timeout_ms=60000))
    State.OBJECT_ALLOC = True
    warnings.filterwarnings('ignore')
    M = E.meshes
    grp = (f"origin_and_widths stretching={stretching} cell_numbers={cells} "
           f"center_on_edge={coe} lambda_from_center={lfc} "
           f"{'distance' if use_dist else 'domain'}" +
           (" with a 3-node vector" if with_vec else ""))
    saved = [(M, n, getattr(M, n)) for n in ('skin_depth', 'cell_width',
                                             'wavelength', 'np')]
    had_float = hasattr(M, 'float')
    sk, dm = Q.var('skind'), Q.var('dmin')
    wl = [Q.var('wl0'), Q.var('wl1')]
    mb = Q.var('max_buffer')
    cen, a, b = Q.var('center'), Q.var('a'), Q.var('b')
    for v in [sk, dm, mb, a, b]+wl:
        c.assume(B(v.t > 0))
    d0, d1 = cen-a, cen+b            # the survey domain contains the centre
    if with_vec:
        # a node vector around the centre (three nodes, strictly increasing)
        u1, u2 = Q.var('u1'), Q.var('u2')
        c.assume(B(z3.And(u1.t > 0, u2.t > 0)))
        vec = [cen-u1, cen, cen+u2]
    M.skin_depth = lambda f, cond, *x, **k: np.array(
        [sk, sk, sk], dtype=object).view(symx.SymArray)
    M.cell_width = lambda s_, pps, lim: dm
    M.wavelength = lambda s_: np.array(wl, dtype=object).view(symx.SymArray)
    M.float = symx.symfloat
    # display precision of the info string (formatting, not the subject)
    M.np = _Namespace(M.np, dict(log10=lambda x: 0.0 if symx.has_sym(x)
                                 else np.log10(x)))
    obs = []
    n = dict(paths=0, mesh=0, err=0)
    seen_nx = set()
    bad = None
    t0 = time.time()

    def run():
        kw = dict(stretching=list(stretching), cell_numbers=list(cells),
                  center_on_edge=coe, lambda_from_center=lfc, max_buffer=mb)
        if use_dist:
            kw['distance'] = [a, b]
        else:
            kw['domain'] = [d0, d1]
        if with_vec:
            kw['vector'] = np.array(vec, dtype=object).view(symx.SymArray)
        try:
            return M.origin_and_widths(1.0, [1.0], cen, **kw)
        except RuntimeError as e:
            return ('err', str(e))

    try:
        for res, pc, tr in c.explore(run, budget_s=9000):
            n['paths'] += 1
            if res[0] == 'err':
                n['err'] += 1
                continue
            n['mesh'] += 1
            c.pc = pc
            x0, hx = res
            hx = [Q._co(v) for v in np.asarray(hx, dtype=object).ravel()]
            seen_nx.add(len(hx))
            why = None
            if len(hx) not in cells:
                why = f"{len(hx)} cells is not a permitted cell count"
            conj = [v.t > 0 for v in hx]
            # computational domain from the property text
            if not lfc:
                buf = [z3.If(w.t < mb.t, w.t, mb.t) for w in wl]
                cd0, cd1 = symx.qt(d0)-buf[0], symx.qt(d1)+buf[1]
            else:
                r0 = (2*wl[0].t - a.t)/2
                r1 = (2*wl[1].t - b.t)/2
                cd0 = symx.qt(d0) - z3.If(r0 > 0, r0, 0)
                cd1 = symx.qt(d1) + z3.If(r1 > 0, r1, 0)
                cd0 = z3.If(cd0 > cen.t-mb.t, cd0, cen.t-mb.t)
                cd1 = z3.If(cd1 < cen.t+mb.t, cd1, cen.t+mb.t)
            tot = Q(Fraction(0))
            nodes = [Q._co(x0)]
            for v in hx:
                tot = tot + v
                nodes.append(Q._co(x0)+tot)
            # (the stretching factors alpha**k are rounded doubles: the
            # bound holds to rounding, 1e-12 relative allowed)
            smax = Fraction(max(stretching))*(1+Fraction(1, 10**12))
            props = {
                "all widths positive": z3.And(*conj),
                "covers the survey domain plus buffer (lower end)":
                    symx.qt(Q._co(x0)) <= cd0,
                "covers the survey domain plus buffer (upper end)":
                    symx.qt(nodes[-1]) >= cd1,
                "neighbouring widths within the larger stretching factor":
                    z3.And(*[z3.And(p.t <= smax*q.t, q.t <= smax*p.t)
                             for p, q in zip(hx[:-1], hx[1:])
                             # (two cells of the user's own vector: their
                             # ratio is the user's choice)
                             if not (with_vec and z3.simplify(
                                 p.t-u1.t).eq(z3.RealVal(0)) and
                                 z3.simplify(q.t-u2.t).eq(z3.RealVal(0)))]),
                ("centre on a node" if coe else "centre on a cell centre"):
                    z3.Or(*([symx.qt(nd) == cen.t for nd in nodes] if coe
                            else [symx.qt(p_+q_) == 2*cen.t
                                  for p_, q_ in zip(nodes[:-1], nodes[1:])])),
            }
            if with_vec:
                # a vector overrides the centre clause; instead its nodes
                # inside the survey domain must be nodes of the mesh
                props = {k_: v_ for k_, v_ in props.items()
                         if not k_.startswith('centre')}
                props["vector nodes inside the domain are mesh nodes"] = \
                    z3.And(*[z3.Implies(
                        z3.And(symx.qt(v_) >= symx.qt(d0),
                               symx.qt(v_) <= symx.qt(d1)),
                        z3.Or(*[symx.qt(nd) == symx.qt(v_)
                                for nd in nodes])) for v_ in vec])
            m = None
            if why is None:
                for name, pr in props.items():
                    v, m = c.valid(pr, label=name)
                    if v != 'held':
                        why = name+('' if v == 'cex' else ' (unknown)')
                        break
            if why:
                wit = None
                if m is None:
                    r_, m = c.check(label='witness')
                if m is not None:
                    wd = dict(center=cen, a=a, b=b, dmin=dm, wl0=wl[0],
                              wl1=wl[1], max_buffer=mb)
                    if with_vec:
                        wd.update(u1=u1, u2=u2)
                    wit = {k: float(symx.model_value(m, q))
                           for k, q in wd.items()}
                bad = (why, wit)
                break
    except Inconclusive as e:
        obs.append(ob("exploration budget", 'unknown', group=grp,
                      note=str(e)))
    finally:
        for mod, nm, val in saved:
            setattr(mod, nm, val)
        if not had_float:
            try:
                del M.float
            except AttributeError:
                pass
    dt = time.time()-t0
    if bad:
        why, wit = bad
        obs.append(ob("postconditions of the returned mesh",
                      'unknown' if why.endswith('(unknown)') else 'cex',
                      group=grp, cls='LIN', seconds=dt, note=why,
                      key=f"automatic gridding: {why}",
                      cex=dict(kind='direction', stretching=list(stretching),
                               cells=list(cells), coe=coe, lfc=lfc,
                               use_dist=use_dist, with_vec=with_vec,
                               witness=wit, why=why)))
    elif not any(o['verdict'] == 'unknown' for o in obs):
        obs.append(ob(
            f"{n['mesh']} mesh-returning paths ({n['err']} paths raise): "
            f"permitted cell count, widths > 0, covers domain plus capped "
            f"buffer, stretching bound, centre on "
            f"{'a node' if coe else 'a cell centre'}", 'held', group=grp,
            cls='LIN', seconds=c.stats['solver_s'],
            note=f"wall {dt:.1f}s, {n['paths']} paths"))
    obs.append(ob(f"reachability: meshes with {sorted(seen_nx)} cells and "
                  f"{n['err']} error paths", 'twin_sat' if n['mesh'] and
                  (n['err'] or bad) and (seen_nx == set(cells) or bad)
                  else 'twin_unsat', group=grp, cls='LIN', nontrivial=False))
    return obs


def case_seasurface(case):
    """_seasurface on the paths that add no cells: the sea surface is a
    node of the returned centre part, or the warning says it is not."""
    with_vector, = case
    E = shadow.load()
    c = set_ctx(Ctx(timeout_ms=60000))
    State.OBJECT_ALLOC = True
    M = E.meshes
    grp = f"_seasurface ({'vector' if with_vector else 'single centre cell'})"
    saved = [(M, 'np', M.np), (M, 'sp', M.sp)]

    def sfloor(x):
        if not symx.has_sym(x):
            return np.floor(x)
        x = Q._co(x)
        if bool(x >= 0) and bool(x < 1):
            return 0
        if bool(x < 0) and bool(x >= -1):
            return -1
        raise symx.PathAbort()      # n >= 1 cells to add: brentq (outside)

    def no_brentq(*a, **k):
        raise symx.PathAbort()
    M.np = _Namespace(M.np, dict(floor=sfloor))
    M.sp = _Namespace(M.sp, dict(optimize=_Namespace(
        M.sp.optimize, dict(brentq=no_brentq))))
    cen, ss = Q.var('center'), Q.var('seasurface')
    c.assume(B(ss.t > cen.t))
    if with_vector:
        v0, v1, v2 = Q.var('v0'), Q.var('v1'), Q.var('v2')
        c.assume(B(z3.And(v0.t < v1.t, v1.t < v2.t, v0.t <= cen.t,
                          cen.t <= v2.t)))
    else:
        dm = Q.var('dmin')
        c.assume(B(dm.t > 0))
    obs = []
    n = dict(paths=0, warned=0, node=0)
    bad = None
    t0 = time.time()

    def run():
        if with_vector:
            vec = np.array([v0, v1, v2], dtype=object).view(symx.SymArray)
            edges = np.array([v0, v2], dtype=object).view(symx.SymArray)
            widths = np.array([v1-v0, v2-v1], dtype=object).view(
                symx.SymArray)
        else:
            vec = None
            edges = np.array([cen-dm/2, cen+dm/2], dtype=object).view(
                symx.SymArray)
            widths = np.array(dm, dtype=object).view(symx.SymArray)
        with warnings.catch_warnings(record=True) as w:
            warnings.simplefilter('always')
            e2, w2 = M._seasurface(edges, widths, cen, ss, [1.0, 1.5], vec,
                                   None)
        return e2, w2, any('Seasurface is not' in str(x.message) for x in w)

    try:
        for (e2, w2, warned), pc, tr in c.explore(run, budget_s=600):
            n['paths'] += 1
            c.pc = pc
            nodes = [Q._co(e2[0])]
            for v in np.atleast_1d(np.asarray(w2, dtype=object)).ravel():
                nodes.append(nodes[-1]+Q._co(v))
            # "is a node" to the tolerance of the code's own test
            # (np.isclose, atol 1e-8; 2e-8 here): the clause holds to rounding
            tol8 = Fraction(2, 10**8)
            isnode = z3.Or(*[z3.And(symx.qt(nd)-ss.t <= tol8,
                                    ss.t-symx.qt(nd) <= tol8)
                             for nd in nodes])
            if warned:
                n['warned'] += 1
                continue
            n['node'] += 1
            v, m = c.valid(isnode, label='seasurface node')
            if v != 'held':
                wit = None
                if m is not None:
                    names = dict(center=cen, seasurface=ss)
                    names.update(dict(v0=v0, v1=v1, v2=v2) if with_vector
                                 else dict(dmin=dm))
                    wit = {k: float(symx.model_value(m, q))
                           for k, q in names.items()}
                bad = (v, wit)
                break
    except Inconclusive as e:
        obs.append(ob("exploration budget", 'unknown', group=grp,
                      note=str(e)))
    finally:
        for mod, nm, val in saved:
            setattr(mod, nm, val)
    if bad:
        obs.append(ob("sea surface is a node, or the warning is issued",
                      'cex' if bad[0] == 'cex' else 'unknown', group=grp,
                      cls='LIN', seconds=time.time()-t0,
                      key="automatic gridding: sea surface neither a node "
                          "nor warned about",
                      cex=dict(kind='seasurface', with_vector=with_vector,
                               witness=bad[1])))
    elif not obs:
        obs.append(ob(f"{n['paths']} paths without added cells: sea surface "
                      f"is a node of the centre part ({n['node']}) or the "
                      f"'not at an actual boundary' warning is issued "
                      f"({n['warned']})", 'held', group=grp, cls='LIN',
                      seconds=c.stats['solver_s']))
    obs.append(ob("reachability: node paths and warning paths", 'twin_sat'
                  if (n['warned'] and n['node']) or bad else 'twin_unsat',
                  group=grp, cls='LIN', nontrivial=False))
    return obs


def case_properties(mapping):
    """The conductivities handed to skin_depth (hence minimum width and
    buffer) are the back-mapped `properties`, for every mapping and 1, 2, 3
    given values (symbolic; log/exp axiomatised)."""
    E = shadow.load()
    c = set_ctx(Ctx(timeout_ms=60000))
    State.OBJECT_ALLOC = True
    M = E.meshes
    grp = f"properties -> skin depth, mapping={mapping}"
    saved = [(M, n, getattr(M, n)) for n in ('skin_depth', 'cell_width',
                                             'wavelength', 'np')]
    had_float = hasattr(M, 'float')
    rec = []

    class Stop(Exception):
        pass

    def fake_sd(f, cond, *a, **k):
        rec.append([Q._co(v) for v in np.asarray(cond, dtype=object).ravel()])
        raise Stop()
    M.skin_depth = fake_sd
    M.float = symx.symfloat
    Mp = getattr(E.maps, 'Map'+mapping)()
    bad = None
    obs = []
    try:
        for n in (1, 2, 3):
            del rec[:]
            sig = [Q.var(f"sig{n}_{k}") for k in range(n)]
            for v in sig:
                c.assume(B(v.t > 0))
            props = Mp.forward(np.array(sig, dtype=object).view(
                symx.SymArray))
            try:
                M.origin_and_widths(1.0, list(props), 0.0,
                                    domain=[-1.0, 1.0], mapping=mapping,
                                    center_on_edge=False)
            except Stop:
                pass
            if len(rec) != 1 or len(rec[0]) != 3:
                bad = f"skin_depth called with {rec}"
                break
            want = [sig[0], sig[min(n-1, 1)], sig[min(n-1, 2)]]
            for got, w_ in zip(rec[0], want):
                if c.valid(symx.qt(got) == symx.qt(w_),
                           label='cond')[0] != 'held':
                    bad = (f"{n} properties: conductivity handed to "
                           f"skin_depth is not the back-mapped property")
                    break
            if bad:
                break
    finally:
        for mod, nm, val in saved:
            setattr(mod, nm, val)
        if not had_float:
            try:
                del M.float
            except AttributeError:
                pass
    if c.stats['forks']:
        obs.append(ob("harness: unexpected fork", 'error', group=grp))
    obs.append(ob("conductivities [centre, negative side, positive side] "
                  "handed to skin_depth == backward(properties) for 1, 2, 3 "
                  "values", 'cex' if bad else 'held', group=grp,
                  cls='UF+NRA', note=bad or '',
                  key=f"automatic gridding: {bad}" if bad else None,
                  cex=dict(kind='props', mapping=mapping) if bad else None))
    return obs


def case_cell_numbers(_):
    """good_mg_cell_nr is a pure function of its three arguments: a grid of
    argument triples in several call orders against the specification
    {p * 2**k <= max_nr : p in {2,3,5,...} <= max_lowest, k >= min_div}
    (concrete; labelled as such)."""
    import itertools
    E = shadow.load()
    M = E.meshes
    grp = "good_mg_cell_nr: specification and independence of earlier calls"

    def spec(max_nr, max_lowest, min_div):
        low = [p for p in (2, 3, 5, 7, 9, 11, 13, 15, 17, 19)
               if p <= max_lowest]
        return sorted({p*2**k for p in low for k in range(min_div, 30)
                       if p*2**k <= max_nr})
    triples = [(a, b_, d) for a in (100, 1024) for b_ in (3, 5, 7)
               for d in (0, 1, 3, 4)]
    bad = None
    for order in (triples, triples[::-1],
                  sorted(triples, key=lambda t: (t[2], t[1], t[0]))):
        for t in order:
            got = [int(x) for x in M.good_mg_cell_nr(*t)]
            if got != spec(*t):
                bad = t
                break
        if bad:
            break
    default_ok = [int(x) for x in M.good_mg_cell_nr()] == spec(1024, 5, 3)
    return [ob(f"{len(triples)} argument triples in three call orders equal "
               f"the specification; default call unaffected",
               'cex' if bad or not default_ok else 'held', group=grp,
               cls='concrete', nontrivial=False,
               key="good_mg_cell_nr depends on earlier calls / wrong numbers",
               cex=dict(kind='cellnr', triple=list(bad) if bad else None)
               if bad or not default_ok else None)]


# --------------------------------------------------------------------------
def replay(cex):
    import emg3d
    from scipy.constants import mu_0
    warnings.filterwarnings('ignore')
    if cex.get('kind') == 'props':
        mp = cex['mapping']
        Mp = getattr(emg3d.maps, 'Map'+mp)()
        got = []
        real = emg3d.meshes.skin_depth

        def spy(f_, cond, *a, **k):
            got.append(np.array(cond, dtype=float))
            return real(f_, cond, *a, **k)
        emg3d.meshes.skin_depth = spy
        try:
            sig = np.array([0.05, 3.0, 0.002])
            emg3d.meshes.origin_and_widths(
                1.0, list(Mp.forward(sig)), 0.0, domain=[-1000., 1000.],
                mapping=mp, center_on_edge=False)
        finally:
            emg3d.meshes.skin_depth = real
        bad = not got or not np.allclose(got[0], sig, rtol=1e-9, atol=0)
        return bad, (f"real origin_and_widths (mapping {mp}): conductivities "
                     f"used for the skin depth {got[0] if got else None} vs "
                     f"back-mapped properties {sig}")
    if cex.get('kind') == 'cellnr':
        def spec(max_nr, max_lowest, min_div):
            low = [p for p in (2, 3, 5, 7, 9, 11, 13, 15, 17, 19)
                   if p <= max_lowest]
            return sorted({p*2**k for p in low for k in range(min_div, 30)
                           if p*2**k <= max_nr})
        msgs = []
        triples = [(a, b_, d) for a in (100, 1024) for b_ in (3, 5, 7)
                   for d in (0, 1, 3, 4)]
        for order in (triples, triples[::-1]):
            for t in order:
                if [int(x) for x in emg3d.meshes.good_mg_cell_nr(*t)] != \
                        spec(*t):
                    msgs.append(f"good_mg_cell_nr{t} wrong")
        if [int(x) for x in emg3d.meshes.good_mg_cell_nr()] != \
                spec(1024, 5, 3):
            msgs.append("default call returns other numbers after earlier "
                        "calls")
        return bool(msgs), ("real good_mg_cell_nr: " +
                            ('; '.join(msgs[:3]) or 'as specified'))
    if cex.get('kind') == 'seasurface':
        w = cex.get('witness')
        if not w:
            return False, 'no witness'
        if cex['with_vector']:
            vec = np.array([w['v0'], w['v1'], w['v2']])
            edges, widths = np.array([w['v0'], w['v2']]), np.diff(vec)
        else:
            vec = None
            edges = np.array([w['center']-w['dmin']/2,
                              w['center']+w['dmin']/2])
            widths = np.array(w['dmin'])
        with warnings.catch_warnings(record=True) as ws:
            warnings.simplefilter('always')
            e2, w2 = emg3d.meshes._seasurface(
                edges, widths, w['center'], w['seasurface'], [1.0, 1.5],
                vec, None)
        warned = any('Seasurface is not' in str(x.message) for x in ws)
        nodes = e2[0]+np.r_[0, np.cumsum(np.atleast_1d(w2))]
        isnode = np.abs(nodes-w['seasurface']).min() <= 2e-8
        return (not isnode and not warned), (
            f"real _seasurface(seasurface={w['seasurface']:.6g}, nodes="
            f"{np.round(nodes, 6).tolist()}): node={bool(isnode)}, warning="
            f"{warned}")
    w = cex.get('witness')
    if not w:
        return False, 'no witness'
    f = 1.0
    # conductivities whose wavelengths are the witness wavelengths
    cond = [1/(np.pi*f*mu_0*(wl/(2*np.pi))**2) for wl in
            (w['wl0'], w['wl0'], w['wl1'])]
    # properties = [centre, negative side, positive side]
    props = [cond[0], cond[0], cond[2]]
    kw = dict(stretching=list(cex['stretching']),
              cell_numbers=list(cex['cells']), center_on_edge=cex['coe'],
              lambda_from_center=cex['lfc'], max_buffer=w['max_buffer'],
              min_width_limits=[w['dmin'], w['dmin']],
              mapping='Conductivity')
    cen = w['center']
    dom = [cen-w['a'], cen+w['b']]
    if cex['use_dist']:
        kw['distance'] = [w['a'], w['b']]
    else:
        kw['domain'] = dom
    vecn = None
    if cex.get('with_vec'):
        vecn = np.array([cen-w['u1'], cen, cen+w['u2']])
        kw['vector'] = vecn
    try:
        x0, hx = emg3d.meshes.origin_and_widths(f, props, cen, **kw)
    except RuntimeError as e:
        return False, f"real origin_and_widths raised {e}"
    wl = emg3d.meshes.wavelength(emg3d.meshes.skin_depth(
        f, np.array(props)))[1:]
    mbuf = w['max_buffer']
    if not cex['lfc']:
        cd = [dom[0]-min(wl[0], mbuf), dom[1]+min(wl[1], mbuf)]
    else:
        cd = [max(dom[0]-max(0, (2*wl[0]-w['a'])/2), cen-mbuf),
              min(dom[1]+max(0, (2*wl[1]-w['b'])/2), cen+mbuf)]
    nodes = x0+np.r_[0, np.cumsum(hx)]
    tol = 1e-9*max(1.0, abs(nodes).max())
    msgs = []
    if len(hx) not in cex['cells']:
        msgs.append(f"{len(hx)} cells not permitted")
    if np.any(hx <= 0):
        msgs.append("non-positive width")
    if nodes[0] > cd[0]+tol or nodes[-1] < cd[1]-tol:
        msgs.append(f"mesh [{nodes[0]:.6g}, {nodes[-1]:.6g}] does not cover "
                    f"the domain plus buffer [{cd[0]:.6g}, {cd[1]:.6g}]")
    smax = max(cex['stretching'])
    r = np.r_[hx[1:]/hx[:-1], hx[:-1]/hx[1:]]
    if np.any(r > smax*(1+1e-9)):
        msgs.append(f"neighbouring widths grow by {r.max():.6f} > {smax}")
    pts = nodes if cex['coe'] else (nodes[1:]+nodes[:-1])/2
    if vecn is not None:
        for v_ in vecn:
            if dom[0] <= v_ <= dom[1] and np.abs(nodes-v_).min() > tol:
                msgs.append(f"vector node {v_:.6g} inside the domain is "
                            f"not a node of the mesh")
    elif np.abs(pts-cen).min() > tol:
        msgs.append("centre neither on a node nor on a cell centre as "
                    "requested")
    return bool(msgs), (f"real origin_and_widths(center={cen:.6g}, domain="
                        f"[{dom[0]:.6g}, {dom[1]:.6g}], dmin={w['dmin']:.6g}"
                        f", wavelengths={wl[0]:.6g}/{wl[1]:.6g}, max_buffer="
                        f"{mbuf:.6g}): " + ('; '.join(msgs) or
                                            'postconditions hold'))


def _dispatch(job):
    return globals()[job[0]](job[1])


def main(tier):
    shadow.load()
    run = Run(PID, tier, design_ref='DESIGN.md §6 C16')
    run.functions.update(shadow.func_lines(
        'emg3d/meshes.py', ['origin_and_widths', '_stretch']))
    run.extra['hashes'] = {k: v for k, v in shadow.hashes().items()
                           if k == 'emg3d/meshes.py'}
    S1 = (1.0, 1.002)
    if tier == 'quick':
        cases = [(S1, (4,), False, False, False), (S1, (4,), True, False,
                                                   False),
                 (S1, (4,), False, True, False), (S1, (4,), True, True,
                                                  True),
                 ((1.001, 1.001), (4, 6), False, False, True),
                 (S1, (4,), False, False, True, 'vector')]
    else:
        cases = [(S1, (4,), coe, lfc, ud) for coe in (False, True)
                 for lfc in (False, True) for ud in (False, True)]
        cases += [((1.001, 1.001), (4, 6), coe, lfc, False)
                  for coe in (False, True) for lfc in (False, True)]
        cases += [((1.0, 1.004), (4, 6), False, False, False),
                  ((1.0, 1.002), (6, 8), False, True, True),
                  (S1, (4,), False, True, False, 'vector'),
                  (S1, (4, 6), False, False, True, 'vector')]
    jobs = [('case_direction', x) for x in cases]
    jobs += [('case_seasurface', (True,)), ('case_seasurface', (False,)),
             ('case_cell_numbers', None)]
    jobs += [('case_properties', m_) for m_ in (
        'Conductivity', 'LgConductivity', 'LnConductivity', 'Resistivity',
        'LgResistivity', 'LnResistivity')]
    obs = pmap(_dispatch, jobs)
    run.add(obs)
    run.bounds = dict(
        cases=cases, symbolic="centre, survey domain (a, b > 0 around the "
        "centre) or distances, minimum width, both wavelengths, maximum "
        "buffer: all reals", concrete="stretching pair (<= 4 candidates), "
        "cell-number list (subsets of {4, 6, 8})")
    run.assumptions = [
        "the survey domain contains the centre (a, b > 0)",
        "skin_depth, cell_width and wavelength (float power laws) are stubs "
        "returning arbitrary positive reals: the postconditions are decided "
        "for every minimum width and every pair of wavelengths",
        "exact real arithmetic (the `<`/`<=` decisions of _stretch at float "
        "round-off distance from a threshold are outside)",
        "that an error is raised ONLY when no mesh exists (completeness of "
        "the search) is not decided",
    ]
    run.stubs = ["meshes.skin_depth / cell_width / wavelength -> symbolic "
                 "positive reals", "np.log10 of the info string -> 0 "
                 "(display precision)", "builtins.float -> symx.symfloat"]
    run.outside = ["vectors of more than three nodes", "_seasurface paths "
                   "that "
                   "add cells (brentq root finding)", "realistic stretching "
                   "pairs "
                   "(up to 100x100 candidates) and cell-number lists",
                   "construct_mesh routing, estimate_gridding_opts, "
                   "good_mg_cell_nr", "Laplace-domain frequencies, the six "
                   "mappings of `properties`"]
    run.explanation = (
        "The real one-direction gridding routine is executed path by path "
        "on symbolic reals (every comparison in the search forks); on every "
        "path that returns a mesh z3 decides the property's postconditions "
        "as linear real arithmetic.")
    for o in obs[:3]:
        run.sample(dict(group=o['group'], label=o['label'][:200],
                        verdict=o['verdict'], note=o['note']))
    return run.finish(replay)
