"""C09 — receiver sampling and point sources are exact transposes.

Real code (shadow): fields._point_vector (cell search by comparisons of a
symbolic coordinate with grid nodes -> forks), electrodes.rotation,
fields.get_magnetic_field + fields._edge_curl_factor (symbolic E),
fields._point_vector_magnetic (discretize, concrete position),
fields.get_receiver's NaN mask (symbolic position).
"""
import time
import itertools
from fractions import Fraction

import numpy as np
import z3

import symx
from symx import Q, B, Ctx, set_ctx, sym_array, State, shadow, Inconclusive
from symx.proxies import _Namespace
from . import fit
from .common import ob, Run, pmap, seed

PID = 'C09'
GRIDS = {
    'g333': ([[1, 2, 1.5], [2, 1, 3], [1.25, 1, 2]], (0, -1, 2)),
    'g432': ([[1, 2, 1, 1.5], [3, 1, 2], [2, 1.5]], (-2, 0, 1)),
    'g234': ([[2, 1], [1, 1.5, 2], [1, 2, 1, 3]], (1, 1, -3)),
    'g443': ([[1, 1.5, 2, 1], [2, 1, 1, 3], [1, 2, 1.5]], (0, 2, -1)),
}


class _Duck:
    pass


def trilinear(vecs, arr, pos):
    """Checker-side trilinear interpolant on the tensor grid `vecs` (three
    coordinate vectors, concrete) of the array `arr` at symbolic `pos`.
    Comparisons fork (or are forced by the path condition)."""
    idx, w = [], []
    for d in range(3):
        v = vecs[d]
        k = 0
        while k < len(v)-2 and bool(pos[d] >= v[k+1]):
            k += 1
        r = (pos[d]-v[k])/(v[k+1]-v[k])
        idx.append(k)
        w.append(r)
    tot = Q(Fraction(0))
    for a, b, c3 in itertools.product((0, 1), repeat=3):
        ww = (w[0] if a else 1-w[0])*(w[1] if b else 1-w[1]) * \
             (w[2] if c3 else 1-w[2])
        tot = tot + ww*arr[idx[0]+a, idx[1]+b, idx[2]+c3]
    return tot


def _mkgrid(E, name):
    h, o = GRIDS[name]
    return E.meshes.TensorMesh([np.array(x, dtype=float) for x in h], o)


def comp_vecs(grid, electric=True):
    if electric:
        return [(grid.cell_centers_x, grid.nodes_y, grid.nodes_z),
                (grid.nodes_x, grid.cell_centers_y, grid.nodes_z),
                (grid.nodes_x, grid.nodes_y, grid.cell_centers_z)]
    return [(grid.nodes_x, grid.cell_centers_y, grid.cell_centers_z),
            (grid.cell_centers_x, grid.nodes_y, grid.cell_centers_z),
            (grid.cell_centers_x, grid.cell_centers_y, grid.nodes_z)]


def case_electric(name):
    """<point_vector, f> == sum_c rot_c * trilinear_c(f)(pos)."""
    E = shadow.load()
    c = set_ctx(Ctx(timeout_ms=60000))
    State.OBJECT_ALLOC = True
    grid = _mkgrid(E, name)
    shape = grid.shape_cells
    pos = [Q.var(n) for n in 'xyz']
    nodes = [grid.nodes_x, grid.nodes_y, grid.nodes_z]
    for p, n in zip(pos, nodes):
        c.assume(B(z3.And(p.t >= Fraction(float(n[1])),
                          p.t <= Fraction(float(n[-2])))))
    az, el = Q.var('az'), Q.var('el')
    f = [sym_array(f"f{'xyz'[d]}", fit.edge_shape(shape, d))
         for d in range(3)]
    grp = f"electric point, grid {name} {shape}"
    stats = dict(paths=0)
    bad = None
    witnesses = []
    t0 = time.time()

    def path():
        vf = E.fields._point_vector(grid, (pos[0], pos[1], pos[2], az, el))
        rot = E.electrodes.rotation(az, el)
        return vf, rot
    try:
        for (vf, rot), pc, tr in c.explore(path, budget_s=1500):
            stats['paths'] += 1
            c.pc = pc
            parts = [vf.fx, vf.fy, vf.fz]
            lhs = Q(Fraction(0))
            supp = 0
            for d in range(3):
                for idx in np.ndindex(*parts[d].shape):
                    v = parts[d][idx]
                    if isinstance(v, Q) and v.c is not None and v.c == 0:
                        continue
                    supp += 1
                    lhs = lhs + v*f[d][idx]
            vecs = comp_vecs(grid)
            rhs = Q(Fraction(0))
            for d in range(3):
                rhs = rhs + rot[d]*trilinear(vecs[d], f[d], pos)
            v, m = c.valid(symx.qt(lhs) == symx.qt(rhs), label='transpose')
            # C10: components sum to the unit direction
            sums_ok = 'held'
            for d in range(3):
                tot = Q(Fraction(0))
                for x in parts[d].flat:
                    tot = tot + x
                v2, m2 = c.valid(symx.qt(tot) == symx.qt(rot[d]),
                                 label='sum')
                if v2 != 'held':
                    sums_ok = v2
                    m = m2
            if v != 'held' or sums_ok != 'held' or supp > 24:
                r, mw = c.check(label='witness')
                wit = None
                mm = m if m is not None else mw
                if mm is not None:
                    wit = [float(symx.model_value(mm, p)) for p in pos]
                bad = (v, sums_ok, supp, wit)
                break
            if len(witnesses) < 6:
                r, mw = c.check(label='witness')
                if mw is not None:
                    witnesses.append([float(symx.model_value(mw, p))
                                      for p in pos])
    except Inconclusive as e:
        return [ob("exploration", 'unknown', group=grp, cls='POLY-ID',
                   note=str(e))]
    dt = time.time()-t0
    if bad:
        v, s_ok, supp, wit = bad
        verdict = 'cex' if 'cex' in (v, s_ok) or supp > 24 else 'unknown'
        return [ob("point vector == transpose of trilinear sampling; "
                   "components sum to the unit direction", verdict,
                   group=grp, cls='POLY-ID', seconds=dt,
                   note=f"transpose={v} sums={s_ok} support={supp}",
                   key="electric point-source vector is not the transpose "
                       "of linear receiver sampling",
                   cex=dict(kind='electric', grid=name, pos=wit))]
    # validation: checker's trilinear == real get_receiver(method='linear')
    val = validate_trilinear(name, witnesses)
    return [ob(f"all {stats['paths']} cell classes: <point_vector, f> == "
               f"sum_c rot_c * trilinear_c(f)(pos) for all positions in the "
               f"second to second-last cell, all orientations, all fields; "
               f"components sum to (cos az cos el, sin az cos el, sin el); "
               f"support <= 24 edges", 'held', group=grp, cls='POLY-ID',
               seconds=dt, note=f"paths={stats['paths']} validation vs real "
               f"get_receiver(linear): max diff {val:.2e}"),
            ob("twin: more than one cell class reached", 'twin_sat' if
               stats['paths'] > 1 else 'twin_unsat', group=grp,
               cls='POLY-ID', nontrivial=False),
            ob("validation: checker's trilinear interpolant agrees with the "
               "real get_receiver(method='linear') at solver witnesses",
               'held' if val < 1e-9 else 'error', cls='concrete', group=grp,
               nontrivial=False, note=f"{val:.2e}")]


def validate_trilinear(name, witnesses):
    import emg3d
    h, o = GRIDS[name]
    grid = emg3d.TensorMesh([np.array(x, dtype=float) for x in h], o)
    rng = np.random.default_rng(5)
    fld = emg3d.Field(grid, rng.normal(size=grid.n_edges) +
                      1j*rng.normal(size=grid.n_edges))
    worst = 0.0
    set_ctx(Ctx())
    for w in witnesses:
        for az, el in ((0., 0.), (33., -20.), (90., 90.)):
            got = emg3d.fields.get_receiver(fld, (w[0], w[1], w[2], az, el),
                                            method='linear')
            rot = emg3d.electrodes.rotation(az, el)
            vecs = comp_vecs(grid)
            parts = [fld.fx, fld.fy, fld.fz]
            want = 0
            for d in range(3):
                pr = _tl_float(vecs[d], parts[d], w)
                want = want + rot[d]*pr
            if np.isnan(got):
                continue
            worst = max(worst, abs(complex(got)-want))
    return worst


def _tl_float(vecs, arr, pos):
    idx, w = [], []
    for d in range(3):
        v = vecs[d]
        k = int(np.clip(np.searchsorted(v, pos[d], side='right')-1, 0,
                        len(v)-2))
        idx.append(k)
        w.append((pos[d]-v[k])/(v[k+1]-v[k]))
    tot = 0
    for a, b, c3 in itertools.product((0, 1), repeat=3):
        ww = (w[0] if a else 1-w[0])*(w[1] if b else 1-w[1]) * \
             (w[2] if c3 else 1-w[2])
        tot = tot + ww*arr[idx[0]+a, idx[1]+b, idx[2]+c3]
    return tot


def case_magnetic(case):
    """Sampling H = Faraday(E) at a magnetic receiver == <E, magnetic point
    vector>, for symbolic E (concrete grid, position, orientation, model)."""
    name, freq, coords, with_mu = case
    E = shadow.load()
    c = set_ctx(Ctx(timeout_ms=60000))
    grid = _mkgrid(E, name)
    shape = grid.shape_cells
    State.OBJECT_ALLOC = False
    rng = np.random.default_rng(11)
    kw = {}
    if with_mu:
        kw['mu_r'] = np.round(rng.uniform(1, 3, shape)*4)/4
    model = E.models.Model(grid, property_x=np.round(
        rng.uniform(1, 3, shape)*4)/4, **kw)
    mvec = E.fields._point_vector_magnetic(grid, coords, freq)
    State.OBJECT_ALLOC = True
    e = [sym_array(f"e{'xyz'[d]}", fit.edge_shape(shape, d))
         for d in range(3)]
    ef = E.fields.Field(grid, frequency=freq)
    ef._field = np.concatenate(
        [np.asarray(p, dtype=object).ravel(order='F') for p in e]).view(
            symx.SymArray)
    hf = E.fields.get_magnetic_field(model, ef)
    pos = [Q(Fraction(float(x))) for x in coords[:3]]
    State.OBJECT_ALLOC = False
    rot = E.electrodes.rotation(coords[3], coords[4])
    State.OBJECT_ALLOC = True
    vecs = comp_vecs(grid, electric=False)
    hparts = [hf.fx, hf.fy, hf.fz]
    hrec = Q(Fraction(0))
    for d in range(3):
        hrec = hrec + Q(float(rot[d]))*trilinear(vecs[d], hparts[d], pos)
    mparts = [mvec.fx, mvec.fy, mvec.fz]
    inner = symx.Qc(0, 0)
    for d in range(3):
        for idx in np.ndindex(*mparts[d].shape):
            mv = complex(mparts[d][idx])
            if mv != 0:
                inner = inner + symx.Qc(Q(mv.real), Q(mv.imag))*e[d][idx]
    hrec = symx.Qc._co(hrec)
    grp = f"magnetic point, grid {name}, f={freq}, mu_r={with_mu}, " \
          f"coords={coords}"
    # both sides are linear forms in E with float coefficients: compare
    # coefficient-wise (1e-9 relative) on the solver's normal form
    t1 = time.time()
    worst = scale = 0.0
    for a, b in ((hrec.re, inner.re), (hrec.im, inner.im)):
        diff = z3.simplify(symx.qt(a)-symx.qt(b), som=True)
        worst = max(worst, _max_coeff(diff))
        scale = max(scale, _max_coeff(z3.simplify(symx.qt(b), som=True)))
    ok = worst <= 1e-9*max(scale, 1e-300) and scale > 0
    return [ob("H sampled at the receiver (trilinear on faces of "
               "get_magnetic_field(E)) == <E, magnetic point vector> as "
               "linear forms in E (coefficient-wise, 1e-9 relative)",
               'held' if ok else 'cex', group=grp, cls='LIN',
               seconds=time.time()-t1, note=f"max coeff diff {worst:.3e} "
               f"of scale {scale:.3e}",
               key=f"magnetic receiver sampling != <E, magnetic point "
                   f"vector> ({'Laplace' if freq < 0 else 'frequency'} "
                   f"domain)",
               cex=None if ok else dict(kind='magnetic', grid=name,
                                        freq=freq, coords=list(coords)))]


def _max_coeff(term):
    """Largest |numeral coefficient| of a som-normalised linear form."""
    worst = 0.0

    def coef(m):
        if z3.is_rational_value(m):
            return abs(float(m.as_fraction()))
        if z3.is_mul(m) and z3.is_rational_value(m.arg(0)):
            return abs(float(m.arg(0).as_fraction()))
        return 1.0
    if z3.is_add(term):
        for k in range(term.num_args()):
            worst = max(worst, coef(term.arg(k)))
    else:
        worst = coef(term)
        if z3.is_rational_value(term):
            worst = abs(float(term.as_fraction()))
    return worst


def case_nan_mask(name):
    """get_receiver: NaN exactly outside [nodes[1], nodes[-2]]^3."""
    E = shadow.load()
    c = set_ctx(Ctx(timeout_ms=60000))
    State.OBJECT_ALLOC = True
    grid = _mkgrid(E, name)
    shape = grid.shape_cells
    pos = [Q.var(n) for n in 'xyz']
    fld = E.fields.Field(grid, dtype=float)
    real_pts = E.maps._points_from_grids
    real_int = E.maps.interpolate

    def fake_pts(grid_, values, xi, method):
        arr = np.empty((1, 3), dtype=object)
        for k in range(3):
            arr[0, k] = xi[k]
        return None, arr.view(symx.SymArray), ()

    def fake_int(grid_, values, xi, **kw):
        return symx.symnp.zeros(1)
    E.maps._points_from_grids = fake_pts
    E.maps.interpolate = fake_int
    grp = f"NaN policy, grid {name}"
    bad = None
    n = dict(nan=0, num=0)
    t0 = time.time()
    try:
        def path():
            r = E.fields.get_receiver(fld, (pos[0], pos[1], pos[2], 0., 0.),
                                      method='linear')
            v = np.asarray(r).ravel()[0]
            return isinstance(v, float) and v != v
        nodes = [grid.nodes_x, grid.nodes_y, grid.nodes_z]
        inside = z3.And(*[z3.And(p.t >= Fraction(float(nn[1])),
                                 p.t <= Fraction(float(nn[-2])))
                          for p, nn in zip(pos, nodes)])
        for isnan, pc, tr in c.explore(path, budget_s=300):
            c.pc = pc
            n['nan' if isnan else 'num'] += 1
            v, m = c.valid(z3.Not(inside) if isnan else inside, label='mask')
            if v != 'held':
                if v == 'cex':
                    # prefer a witness well inside the grid hull (0.6 of the
                    # outermost cells away from the boundary), where the
                    # interpolation itself cannot return NaN
                    pref = z3.And(*[z3.And(
                        p.t >= Fraction(float(nn[0]+0.6*(nn[1]-nn[0]))),
                        p.t <= Fraction(float(nn[-1]-0.6*(nn[-1]-nn[-2]))))
                        for p, nn in zip(pos, nodes)])
                    r2, m2 = c.check(z3.Not(z3.Not(inside) if isnan
                                            else inside), pref,
                                     label='mask witness')
                    if r2 == 'sat':
                        m = m2
                bad = (isnan, v, [float(symx.model_value(m, p))
                                  for p in pos] if m is not None else None)
                break
    except Inconclusive as e:
        return [ob("exploration", 'unknown', group=grp, cls='LIN',
                   note=str(e))]
    finally:
        E.maps._points_from_grids = real_pts
        E.maps.interpolate = real_int
    if bad:
        return [ob("NaN iff outside the second to second-last cell", 'cex'
                   if bad[1] == 'cex' else 'unknown', group=grp, cls='LIN',
                   seconds=time.time()-t0, note=str(bad),
                   key="get_receiver NaN policy wrong",
                   cex=dict(kind='nan', grid=name, pos=bad[2],
                            isnan=bool(bad[0])))]
    return [ob(f"get_receiver returns NaN exactly for positions outside "
               f"[nodes[1], nodes[-2]] in some direction ({n})", 'held',
               group=grp, cls='LIN', seconds=time.time()-t0),
            ob("twin: NaN and number paths reached", 'twin_sat' if
               n['nan'] and n['num'] else 'twin_unsat', group=grp, cls='LIN',
               nontrivial=False)]


def replay(cex):
    import emg3d
    kind = cex['kind']
    h, o = GRIDS[cex['grid']]
    grid = emg3d.TensorMesh([np.array(x, dtype=float) for x in h], o)
    rng = np.random.default_rng(9)
    if kind == 'electric':
        pos = cex.get('pos')
        if pos is None:
            return False, 'no witness position'
        worst = 0.0
        sums = 0.0
        for az, el in ((0., 0.), (33., -20.), (90., 90.), (-120., 45.)):
            src = (pos[0], pos[1], pos[2], az, el)
            vf = emg3d.fields._point_vector(grid, src)
            fld = emg3d.Field(grid, rng.normal(size=grid.n_edges)+0j)
            lhs = complex((vf.field*fld.field).sum())
            rot = emg3d.electrodes.rotation(az, el)
            parts = [fld.fx, fld.fy, fld.fz]
            want = sum(rot[d]*_tl_float(comp_vecs(grid)[d], parts[d], pos)
                       for d in range(3))
            rec = emg3d.fields.get_receiver(fld, src, method='linear')
            worst = max(worst, abs(lhs-want), abs(lhs-complex(rec)))
            for d, part in enumerate([vf.fx, vf.fy, vf.fz]):
                sums = max(sums, abs(part.sum()-rot[d]))
        return (worst > 1e-9 or sums > 1e-9), (
            f"real _point_vector at {pos} on {cex['grid']}: |<v,f> - linear "
            f"sampling| = {worst:.2e}; |component sums - direction| = "
            f"{sums:.2e}")
    if kind == 'magnetic':
        freq = cex['freq']
        coords = tuple(cex['coords'])
        model = emg3d.Model(grid, 1.0)
        fld = emg3d.Field(grid, rng.normal(size=grid.n_edges),
                          frequency=freq)
        if freq > 0:
            fld = emg3d.Field(grid, rng.normal(size=grid.n_edges) +
                              1j*rng.normal(size=grid.n_edges),
                              frequency=freq)
        hf = emg3d.fields.get_magnetic_field(model, fld)
        rec = complex(emg3d.fields.get_receiver(hf, coords, method='linear'))
        mv = emg3d.fields._point_vector_magnetic(grid, coords, freq)
        inner = complex((mv.field*fld.field).sum())
        err = abs(rec-inner)/max(abs(rec), 1e-300)
        return err > 1e-9, (f"real magnetic receiver {rec!r} vs <E, "
                            f"magnetic point vector> {inner!r} (f={freq})")
    if kind == 'nan':
        pos = cex.get('pos')
        if pos is None:
            return False, 'no witness'
        fld = emg3d.Field(grid, rng.normal(size=grid.n_edges)+0j)
        r = emg3d.fields.get_receiver(fld, (pos[0], pos[1], pos[2], 0., 0.),
                                      method='linear')
        nodes = [grid.nodes_x, grid.nodes_y, grid.nodes_z]
        inside = all(n[1] <= p <= n[-2] for p, n in zip(pos, nodes))
        isnan = bool(np.isnan(r))
        return isnan == inside, (f"real get_receiver at {pos}: "
                                 f"{'NaN' if isnan else 'number'}; position "
                                 f"is {'inside' if inside else 'outside'} "
                                 f"the second to second-last cell")
    return False, 'unknown kind'


def _dispatch(job):
    return globals()[job[0]](job[1])


def main(tier):
    shadow.load()
    run = Run(PID, tier, design_ref='DESIGN.md §6 C09')
    run.functions.update(shadow.func_lines(
        'emg3d/fields.py', ['_point_vector', '_point_vector_magnetic',
                            'get_receiver', 'get_magnetic_field',
                            '_edge_curl_factor']))
    run.functions.update(shadow.func_lines('emg3d/electrodes.py',
                                           ['rotation']))
    run.extra['hashes'] = {k: v for k, v in shadow.hashes().items()
                           if k in ('emg3d/fields.py',
                                    'emg3d/electrodes.py')}
    grids = list(GRIDS)
    jobs = [('case_electric', g) for g in grids]
    jobs += [('case_nan_mask', g) for g in grids]
    mag = []
    for g in (['g333', 'g443'] if tier == 'quick' else
              ['g333', 'g443']):
        h, o = GRIDS[g]
        gx = np.r_[0, np.cumsum(h[0])]+o[0]
        gy = np.r_[0, np.cumsum(h[1])]+o[1]
        gz = np.r_[0, np.cumsum(h[2])]+o[2]
        p1 = (float(gx[1]+.25), float(gy[1]+.5), float(gz[1]+.125))
        p2 = (float(gx[-2]-.25), float(gy[1]+.125), float(gz[-2]-.25))
        for f in (2.0, -2.0):
            mag.append((g, f, p1+(30., 20.), False))
            mag.append((g, f, p2+(0., 90.), False))
            if tier != 'quick':
                mag.append((g, f, p1+(-70., -35.), False))
    jobs += [('case_magnetic', m) for m in mag]
    obs = pmap(_dispatch, jobs)
    run.add(obs)
    run.bounds = dict(
        grids={g: GRIDS[g] for g in grids},
        electric="position symbolic in [nodes[1], nodes[-2]]^3, azimuth and "
                 "elevation symbolic (cos/sin pair with c^2+s^2=1), field "
                 "symbolic", magnetic=f"{len(mag)} concrete (grid, frequency,"
                 f" position, orientation) cases, E symbolic, mu_r=1",
        nan_mask="position symbolic (reals), anywhere")
    run.assumptions = [
        "exact real arithmetic; cos/sin of the symbolic angles are a pair "
        "(c, s) constrained only by c^2+s^2=1",
        "the checker's trilinear interpolant is the meaning of 'linear "
        "sampling'; it is validated against the real "
        "get_receiver(method='linear') (SciPy RegularGridInterpolator) at "
        "solver-chosen witness positions of the paths",
        "reciprocity follows from C02 symmetry + these transposes + exact "
        "solve (mathematics, not checked here)",
        "magnetic case: mu_r = 1 (the magnetic point vector takes no model)",
    ]
    run.stubs = ["maps._points_from_grids / maps.interpolate inside "
                 "get_receiver -> pass-through stubs (NaN-mask check only)",
                 "scipy.special.cosdg/sindg -> symbolic (c, s) pair"]
    run.outside = ["cubic interpolation", "grids other than the listed",
                   "magnetic case with symbolic position (discretize is "
                   "compiled)", "solver tolerance in reciprocity"]
    run.explanation = (
        "fields._point_vector is executed with symbolic position, angles "
        "and field on concrete stretched grids; its cell search forks on "
        "comparisons, so every (cell class per component) is a path; per "
        "path z3 decides that the inner product with an arbitrary field "
        "equals the rotation-weighted trilinear interpolant, that the "
        "components sum to the unit direction and the support is one cell's "
        "edges.  The magnetic transpose is decided as equality of linear "
        "forms in a symbolic E (coefficients from the real kernels).  The "
        "NaN mask of get_receiver is explored with a symbolic position.")
    for o in obs[:3]:
        run.sample(dict(group=o['group'], label=o['label'][:200],
                        verdict=o['verdict'], note=o['note']))
    return run.finish(replay)
