"""C14 — the physical model is invariant under the property mapping.

Real code (shadow): the six maps.Map* classes (forward, backward,
derivative_chain), models.Model (__init__, _init_parameter,
_check_positive_finite, property setters), models.VolumeModel.

exp / log / log10 / 10**x are uninterpreted functions with the inverse-pair
axioms (exp(ln y)=y for y>0, ln(exp x)=x, same for base 10, exp,p10 > 0,
ln(1/m) = -ln(m)); the claims hold for ALL real values.  Input validation is
decided on IEEE-754 doubles (exact division) for the two linear maps.
"""
import time
from fractions import Fraction

import numpy as np
import z3

import symx
from symx import Q, F64, B, Ctx, set_ctx, sym_array, State, shadow, \
    Inconclusive
from .common import ob, Run, pmap

PID = 'C14'
MAPS = ['Conductivity', 'LgConductivity', 'LnConductivity', 'Resistivity',
        'LgResistivity', 'LnResistivity']
LN10 = float(np.log(10))


class _Duck:
    pass


# ---- symbolic differentiation over z3 terms (oracle for d sigma / d x) ----
def ddx(c, t, x):
    if t.eq(x):
        return z3.RealVal(1)
    if z3.is_rational_value(t):
        return z3.RealVal(0)
    if z3.is_const(t):
        m = c.recip_den.get(t.get_id())
        if m is not None:                 # t = 1/m  ->  -t^2 m'
            return -(t*t)*ddx(c, m, x)
        return z3.RealVal(0)
    k = t.decl().kind()
    ch = t.children()
    if k == z3.Z3_OP_ADD:
        r = ddx(c, ch[0], x)
        for a in ch[1:]:
            r = r+ddx(c, a, x)
        return r
    if k == z3.Z3_OP_SUB:
        r = ddx(c, ch[0], x)
        for a in ch[1:]:
            r = r-ddx(c, a, x)
        return r
    if k == z3.Z3_OP_UMINUS:
        return -ddx(c, ch[0], x)
    if k == z3.Z3_OP_MUL:
        tot = None
        for i in range(len(ch)):
            term = ddx(c, ch[i], x)
            for j in range(len(ch)):
                if j != i:
                    term = term*ch[j]
            tot = term if tot is None else tot+term
        return tot
    if k == z3.Z3_OP_UNINTERPRETED:
        name = t.decl().name()
        du = ddx(c, ch[0], x)
        if name == 'exp':
            return t*du
        if name == 'p10':
            return z3.RealVal(str(Fraction(LN10)))*t*du
    raise NotImplementedError(f"ddx: {t.decl()}")


def case_map(name):
    E = shadow.load()
    c = set_ctx(Ctx(timeout_ms=60000))
    State.OBJECT_ALLOC = True
    M = getattr(E.maps, 'Map'+name)()
    grp = f"Map{name}"
    obs = []
    sig = Q.var('sigma')
    c.assume(B(sig.t > 0))
    x = Q.var('x')
    if name in ('Conductivity', 'Resistivity'):
        c.assume(B(x.t > 0))         # mapped values of a valid model
    sarr = np.array([sig], dtype=object).view(symx.SymArray)
    xarr = np.array([x], dtype=object).view(symx.SymArray)
    # round trips
    t1 = time.time()
    bf = M.backward(M.forward(sarr))[0]
    vd, m = c.valid(symx.qt(bf) == sig.t, label='bf')
    obs.append(ob("backward(forward(sigma)) == sigma for all sigma > 0", vd,
                  group=grp, cls='UF+NRA', seconds=time.time()-t1,
                  key=f"Map{name} backward(forward) != id",
                  cex=dict(kind='roundtrip', map=name) if vd == 'cex'
                  else None))
    t1 = time.time()
    fb = M.forward(M.backward(xarr))[0]
    vd, m = c.valid(symx.qt(fb) == x.t, label='fb')
    obs.append(ob("forward(backward(x)) == x for all admissible x", vd,
                  group=grp, cls='UF+NRA', seconds=time.time()-t1,
                  key=f"Map{name} forward(backward) != id",
                  cex=dict(kind='roundtrip', map=name) if vd == 'cex'
                  else None))
    # results are fresh arrays: two results held at once are independent,
    # inputs are not modified
    t1 = time.time()
    y2 = Q.var('y2')
    if name in ('Conductivity', 'Resistivity'):
        c.assume(B(y2.t > 0))
    x2arr = np.array([y2], dtype=object).view(symx.SymArray)
    fresh_ok = True
    for fn in (M.backward, M.forward):
        r1 = fn(xarr)
        first = r1[0]
        r2 = fn(x2arr)
        now = r1[0]                 # the earlier result, after a second call
        again = fn(xarr)[0]
        if not (
                symx.qt(now).eq(symx.qt(first)) and
                symx.qt(xarr[0]).eq(x.t) and
                c.valid(symx.qt(first) == symx.qt(again),
                        label='fresh')[0] == 'held'):
            fresh_ok = False
    obs.append(ob("forward/backward return fresh arrays: a second call "
                  "does not change an earlier result, inputs unmodified",
                  'held' if fresh_ok else 'cex', group=grp, cls='UF+NRA',
                  seconds=time.time()-t1,
                  key=f"Map{name} results share a buffer",
                  cex=dict(kind='fresh', map=name) if not fresh_ok
                  else None))
    # backward gives a positive conductivity
    t1 = time.time()
    bx = M.backward(xarr)[0]
    vd, m = c.valid(symx.qt(bx) > 0, label='pos')
    obs.append(ob("backward(x) > 0", vd, group=grp, cls='UF+NRA',
                  seconds=time.time()-t1,
                  key=f"Map{name} backward not positive",
                  cex=dict(kind='roundtrip', map=name) if vd == 'cex'
                  else None))
    # chain rule: gradient *= d backward / dx, in place
    g = Q.var('g')
    garr = np.array([g], dtype=object).view(symx.SymArray)
    keep = garr
    ret = M.derivative_chain(garr, xarr)
    t1 = time.time()
    want = g.t*ddx(c, symx.qt(bx), x.t)
    vd, m = c.valid(symx.qt(keep[0]) == want, label='chain')
    obs.append(ob("derivative_chain multiplies (in place) by exactly "
                  "d sigma/d x", vd, group=grp, cls='UF+NRA',
                  seconds=time.time()-t1,
                  key=f"Map{name} derivative_chain != d backward/dx",
                  cex=dict(kind='chain', map=name) if vd == 'cex' else None))
    obs.append(ob("derivative_chain returns nothing and keeps the array "
                  "object", 'held' if ret is None else 'cex', cls='concrete',
                  group=grp, nontrivial=False,
                  key=f"Map{name} derivative_chain not in place",
                  cex=dict(kind='chain', map=name) if ret is not None
                  else None))
    r3, _ = c.check(label='twin')
    obs.append(ob("twin: axioms satisfiable", 'twin_sat' if r3 == 'sat'
                  else 'twin_unsat', group=grp, cls='UF+NRA'))
    return obs


def case_volume(case):
    """VolumeModel(property = forward(sigma)) == VolumeModel under
    Conductivity for every map / anisotropy / eps / mu."""
    name, aniso, with_eps, with_mu = case
    E = shadow.load()
    c = set_ctx(Ctx(timeout_ms=60000))
    State.OBJECT_ALLOC = True
    shape = (1, 1, 2)
    M = getattr(E.maps, 'Map'+name)()
    h = [sym_array(f"h{'xyz'[d]}", shape[d], positive=True) for d in range(3)]
    s = Q.var('s')
    mu0, eps0 = Q.var('mu_0'), Q.var('eps_0')
    sig = {'x': sym_array('sig_x', shape, positive=True)}
    sig['y'] = sym_array('sig_y', shape, positive=True) \
        if aniso in ('HTI', 'triaxial') else None
    sig['z'] = sym_array('sig_z', shape, positive=True) \
        if aniso in ('VTI', 'triaxial') else None
    eps = sym_array('eps_r', shape, positive=True) if with_eps else None
    mur = sym_array('mu_r', shape, positive=True) if with_mu else None
    model = _Duck()
    model.case = aniso if aniso != 'iso' else 'isotropic'
    model.grid = _Duck()
    model.grid.h = h
    model.grid.origin = np.array([0., 0., 0.])
    model.shape = shape
    model._properties = ['property_x', 'property_y', 'property_z',
                         'mu_r', 'epsilon_r']
    for d in 'xyz':
        setattr(model, 'property_'+d,
                None if sig[d] is None else M.forward(sig[d]))
    model.mu_r, model.epsilon_r = mur, eps
    model.map = M
    sfield = _Duck()
    sfield.sval = s
    sfield.smu0 = s*mu0
    sfield.frequency = s
    sfield._frequency = -s
    real_sp = E.models.sp
    E.models.sp = symx.proxies._Namespace(real_sp, dict(
        constants=symx.proxies._Namespace(real_sp.constants,
                                          dict(epsilon_0=eps0, mu_0=mu0))))
    try:
        vm = E.models.VolumeModel(model, sfield)
    finally:
        E.models.sp = real_sp
    conj = []
    for idx in np.ndindex(*shape):
        V = h[0][idx[0]]*h[1][idx[1]]*h[2][idx[2]]
        for d in 'xyz':
            sg = sig[d] if sig[d] is not None else sig['x']
            want = -s*mu0*V*(sg[idx]+(s*eps0*eps[idx] if with_eps else 0))
            conj.append(symx.qt(getattr(vm, 'eta_'+d)[idx]) == symx.qt(want))
        conj.append(symx.qt(vm.zeta[idx]) ==
                    symx.qt(V/mur[idx] if with_mu else V))
    grp = f"VolumeModel map={name} aniso={aniso} eps={with_eps} mu={with_mu}"
    t1 = time.time()
    vd = 'held'
    for k, q in enumerate(conj):      # entry by entry: small UF queries
        v1, m = c.valid(q, label=f'vm{k}')
        if v1 != 'held':
            vd = v1
            break
    return [ob(f"solver coefficients eta, zeta ({len(conj)} entries) are "
               "those of the plain conductivity model", vd, group=grp,
               cls='UF+NRA',
               seconds=time.time()-t1,
               key=f"VolumeModel coefficients differ under Map{name}",
               cex=dict(kind='volume', map=name, aniso=aniso, eps=with_eps,
                        mu=with_mu) if vd == 'cex' else None)]


def case_gridding_props(name):
    """Automatic gridding sees the same conductivities under every mapping:
    the property list extracted by meshes.estimate_gridding_opts (source
    cell and the six boundary faces) is the mapped minimum conductivity."""
    E = shadow.load()
    c = set_ctx(Ctx(timeout_ms=60000))
    State.OBJECT_ALLOC = True
    grid = E.meshes.TensorMesh([np.array([1., 1.]), np.array([2.]),
                                np.array([2.])], (0., 0., 0.))
    shape = grid.shape_cells
    M = getattr(E.maps, 'Map'+name)()
    sx = sym_array('sx', shape, positive=True)
    sz = sym_array('sz', (1, 1, 1), positive=True)
    State.OBJECT_ALLOC = False
    survey = E.surveys.Survey(E.electrodes.TxElectricDipole(
        (0.5, 1.0, 1., 0., 0.)), E.electrodes.RxElectricPoint(
            (1.5, 1.0, 1., 0., 0.)), [1.0])
    State.OBJECT_ALLOC = True
    grp = f"gridding properties map={name}"
    bad = None
    npaths = 0
    t0 = time.time()

    def path():
        model = E.models.Model(
            grid, property_x=M.forward(sx), property_z=M.forward(
                np.broadcast_to(sz, shape).copy().view(symx.SymArray)),
            mapping=name)
        g = E.meshes.estimate_gridding_opts({}, model, survey)
        return g['properties']
    try:
        for props, pc, tr in c.explore(path, budget_s=600, max_paths=3000):
            npaths += 1
            c.pc = pc
            regions = [(0, 0, 0)]    # source cell index resolved below
            sl = [(0, slice(None), slice(None)), (-1, slice(None),
                  slice(None)), (slice(None), 0, slice(None)),
                  (slice(None), -1, slice(None)),
                  (slice(None), slice(None), 0),
                  (slice(None), slice(None), -1)]
            ix = int(np.argmin(abs(grid.nodes_x-0.5)))
            iy = int(np.argmin(abs(grid.nodes_y-1.0)))
            iz = int(np.argmin(abs(grid.nodes_z-1.0)))
            sels = [(ix, iy, iz)]+sl
            conj = []
            for pr, sel in zip(props, sels):
                vals = [v for v in np.atleast_1d(sx[sel]).ravel()] + \
                    [sz[0, 0, 0]]
                sig = M.backward(np.array([pr], dtype=object).view(
                    symx.SymArray))[0]
                conj.append(z3.And(*[symx.qt(sig) <= v.t for v in vals]))
                conj.append(z3.Or(*[symx.qt(sig) == v.t for v in vals]))
            v, m = c.valid(z3.And(*conj), label='gridding props')
            if v != 'held':
                bad = v
                break
    except Inconclusive as e:
        return [ob("exploration", 'unknown', group=grp, cls='UF+NRA',
                   note=str(e))]
    if bad:
        return [ob("properties handed to the automatic gridding are the "
                   "minimum conductivities of the source cell and the six "
                   "boundary faces", bad, group=grp, cls='UF+NRA',
                   seconds=time.time()-t0,
                   key=f"automatic gridding extracts other conductivities "
                       f"under Map{name}",
                   cex=dict(kind='gridding', map=name))]
    return [ob(f"{npaths} orderings: properties handed to the automatic "
               f"gridding are the (mapped) minimum conductivities of the "
               f"source cell and the six boundary faces", 'held', group=grp,
               cls='UF+NRA', seconds=time.time()-t0)]


def case_validation(case):
    """Model construction / assignment on symbolic doubles."""
    name, which = case
    E = shadow.load()
    c = set_ctx(Ctx(timeout_ms=600000))     # exact fpDiv queries: ~40 s
    State.OBJECT_ALLOC = False
    grid = E.meshes.BaseMesh([[1.], [1.], [1.]], (0, 0, 0))
    v1, v2 = F64.var('v1'), F64.var('v2')

    def path():
        # fresh input arrays per path: Model keeps (and the setter writes
        # into) the caller's array
        a1 = np.array([v1], dtype=object).view(symx.SymArray)
        a2 = np.array([v2], dtype=object).view(symx.SymArray)
        kw = dict(mapping=name)
        if which == 'property_x':
            kw['property_x'] = a1
        else:
            kw['property_x'] = 1.0
            kw[which] = a1
        try:
            model = E.models.Model(grid, **kw)
        except ValueError as e:
            return ('raise-init', str(e))
        try:
            setattr(model, which, a2)
        except ValueError as e:
            return ('raise-set', str(e))
        return ('ok', np.asarray(getattr(model, which)).ravel()[0])
    zero = z3.FPVal(0.0, z3.Float64())
    one = z3.FPVal(1.0, z3.Float64())
    logmap = name.startswith('L') and which.startswith('property_')
    absmap = {}
    if logmap:
        # IEEE-754 exp/10** are not encodable: the backward map on doubles
        # is an ABSTRACT function y = g(x) constrained only by facts that
        # hold for every IEEE implementation: NaN -> NaN; the zero-
        # conductivity end (-inf for conductivity maps, +inf for resistivity
        # maps) -> +0; the other end -> +inf; finite x -> y >= 0, not NaN
        # (y may underflow to 0 or overflow to inf).
        MapCls = getattr(E.maps, 'Map'+name)
        real_backward = MapCls.backward
        lo_is_neg = 'Conductivity' in name

        def g(v):
            key = v.t.get_id()
            if key not in absmap:
                y = c.fresh('sigma', 'f64')
                x = v.t
                zero_end = z3.And(z3.fpIsInf(x), z3.fpIsNegative(x)
                                  if lo_is_neg else z3.fpIsPositive(x))
                inf_end = z3.And(z3.fpIsInf(x), z3.fpIsPositive(x)
                                 if lo_is_neg else z3.fpIsNegative(x))
                c.assume(B(z3.And(
                    z3.fpIsNaN(x) == z3.fpIsNaN(y),
                    z3.Implies(zero_end, z3.And(z3.fpIsZero(y),
                                                z3.fpIsPositive(y))),
                    z3.Implies(inf_end, z3.And(z3.fpIsInf(y),
                                               z3.fpIsPositive(y))),
                    z3.Implies(z3.Not(z3.fpIsNaN(x)),
                               z3.fpGEQ(y, zero)))))
                absmap[key] = (v, F64(y))
                c.keep.append(v.t)
            return absmap[key][1]

        def abs_backward(self, mapped):
            arr = np.asarray(mapped, dtype=object)
            out = np.empty(arr.shape, dtype=object)
            for idx in np.ndindex(*arr.shape):
                out[idx] = g(arr[idx]) if isinstance(arr[idx], F64) \
                    else real_backward(self, np.asarray(arr[idx],
                                                        dtype=float))
            return out.view(symx.SymArray)

    def good(v):
        """conductivity (or mu_r / eps_r) positive and finite."""
        if logmap:
            s = g(v).t
        elif which.startswith('property_') and name == 'Resistivity':
            s = z3.fpDiv(z3.RNE(), one, v.t)
        else:
            s = v.t
        return z3.And(z3.fpGT(s, zero), z3.Not(z3.fpIsInf(s)),
                      z3.Not(z3.fpIsNaN(s)))
    grp = f"validation map={name} parameter={which}"
    bad = None
    n = dict(ok=0, init=0, set=0)
    t0 = time.time()
    if logmap:
        MapCls.backward = abs_backward
    try:
        for res, pc, tr in c.explore(path, budget_s=600):
            c.pc = pc
            if res[0] == 'raise-init':
                n['init'] += 1
                v, m = c.valid(B(z3.Not(good(v1))), label='init')
                if v != 'held':
                    bad = ('rejects a valid value at construction', v, m)
            elif res[0] == 'raise-set':
                n['set'] += 1
                v, m = c.valid(B(z3.And(good(v1), z3.Not(good(v2)))),
                               label='set')
                if v != 'held':
                    bad = ('rejects a valid value on assignment', v, m)
            else:
                n['ok'] += 1
                v, m = c.valid(B(z3.And(good(v1), good(v2))), label='ok')
                if v != 'held':
                    bad = ('accepts a non-positive / non-finite value', v, m)
                elif not (isinstance(res[1], F64) and res[1].t.eq(v2.t)):
                    bad = ('assignment does not store the value', 'cex',
                           None)
            if bad:
                break
    except Inconclusive as e:
        return [ob("exploration", 'unknown', group=grp, cls='FP',
                   note=str(e))]
    finally:
        if logmap:
            MapCls.backward = real_backward
    if bad:
        why, v, m = bad
        vals = None
        if m is not None and logmap and 'accepts' in why:
            # prefer a witness at the infinite end (finite x with g(x) = 0
            # is only an abstraction of underflow)
            for pick in (v2, v1):
                r2, m2 = c.check(z3.Not(z3.And(good(v1), good(v2))),
                                 z3.fpIsInf(pick.t), label='witness')
                if r2 == 'sat':
                    m = m2
                    break
        if m is not None:
            vals = [symx.f64_model_value(m, v1),
                    symx.f64_model_value(m, v2)]
        return [ob(f"validation: {why}", 'cex' if v == 'cex' else 'unknown',
                   group=grp, cls='FP', seconds=time.time()-t0,
                   key=f"Model validation ({which}, {name}): {why}",
                   cex=dict(kind='validation', map=name, which=which,
                            values=vals, why=why))]
    return [ob(f"accepted <=> conductivity/parameter positive and finite, at "
               f"construction and on assignment ({n})", 'held', group=grp,
               cls='FP', seconds=time.time()-t0),
            ob("twin: accept and both reject paths reached", 'twin_sat'
               if all(n.values()) else 'twin_unsat', group=grp, cls='FP',
               nontrivial=False)]


def replay(cex):
    import emg3d
    kind = cex['kind']
    name = cex['map']
    M = getattr(emg3d.maps, 'Map'+name)()
    rng = np.random.default_rng(1)
    if kind == 'roundtrip':
        sig = 10**rng.uniform(-6, 6, 50)
        bf = M.backward(M.forward(sig))
        x = M.forward(sig)
        fb = M.forward(M.backward(x))
        e1 = float(np.abs(bf/sig-1).max())
        e2 = float(np.abs(fb-x).max()/max(1, np.abs(x).max()))
        neg = bool(np.any(M.backward(x) <= 0))
        return (e1 > 1e-9 or e2 > 1e-9 or neg), (
            f"Map{name} on 50 conductivities over 12 decades: "
            f"|b(f(s))/s-1|={e1:.2e}, |f(b(x))-x|={e2:.2e}, "
            f"non-positive backward: {neg}")
    if kind == 'fresh':
        sig1 = 10**rng.uniform(-3, 3, 20)
        sig2 = 10**rng.uniform(-3, 3, 20)
        msgs = []
        for fn, a1, a2 in ((M.backward, M.forward(sig1), M.forward(sig2)),
                           (M.forward, sig1, sig2)):
            keep_in = a1.copy()
            r1 = fn(a1)
            k1 = r1.copy()
            r2 = fn(a2)
            if not np.array_equal(r1, k1) or \
                    not np.array_equal(a1, keep_in):
                msgs.append(f"{fn.__name__}: a second call changed the "
                            f"first result (or the input)")
        return bool(msgs), (f"Map{name}: " + ('; '.join(msgs) or
                                              'results are independent'))
    if kind == 'chain':
        sig = 10**rng.uniform(-3, 3, 20)
        x = M.forward(sig)
        g = np.ones_like(x)
        ret = M.derivative_chain(g, x)
        hstep = 1e-6*np.maximum(1.0, np.abs(x))
        fd = (M.backward(x+hstep)-M.backward(x-hstep))/(2*hstep)
        err = float(np.abs(g/fd-1).max())
        return (err > 1e-5 or ret is not None), (
            f"Map{name}.derivative_chain vs central difference of backward: "
            f"max rel. diff {err:.2e}; returns {ret!r}")
    if kind == 'volume':
        shape = (2, 1, 2)
        grid = emg3d.TensorMesh([[1., 2.], [1.5], [1., 3.]], (0, 0, 0))
        an = cex['aniso']
        sig = {d: 10**rng.uniform(-2, 2, shape) for d in 'xyz'}
        kw, kw0 = {}, {}
        for d in 'xyz':
            use = d == 'x' or (d == 'y' and an in ('HTI', 'triaxial')) or \
                (d == 'z' and an in ('VTI', 'triaxial'))
            if use:
                kw['property_'+d] = M.forward(sig[d])
                kw0['property_'+d] = sig[d]
        if cex['eps']:
            kw['epsilon_r'] = kw0['epsilon_r'] = rng.uniform(1, 9, shape)*1e5
        if cex['mu']:
            kw['mu_r'] = kw0['mu_r'] = rng.uniform(1, 3, shape)
        sf = emg3d.Field(grid, frequency=2.5e6)
        vm = emg3d.models.VolumeModel(emg3d.Model(grid, mapping=name, **kw),
                                      sf)
        v0 = emg3d.models.VolumeModel(
            emg3d.Model(grid, mapping='Conductivity', **kw0), sf)
        worst = 0.0
        for nm in ('eta_x', 'eta_y', 'eta_z', 'zeta'):
            a, b = getattr(vm, nm), getattr(v0, nm)
            worst = max(worst, float(np.abs(a-b).max()/np.abs(b).max()))
        return worst > 1e-9, (f"VolumeModel under Map{name} vs Conductivity "
                              f"({an}): max rel. diff {worst:.2e}")
    if kind == 'gridding':
        grid = emg3d.TensorMesh([np.array([1., 1.]), np.array([2.]),
                                 np.array([2.])], (0., 0., 0.))
        survey = emg3d.Survey(emg3d.TxElectricDipole((.5, 1., 1., 0., 0.)),
                              emg3d.RxElectricPoint((1.5, 1., 1., 0., 0.)),
                              [1.0])
        worst = 0.0
        for _ in range(10):
            sx = 10**rng.uniform(-2, 2, grid.shape_cells)
            sz = 10**rng.uniform(-2, 2, grid.shape_cells)
            g = emg3d.meshes.estimate_gridding_opts({}, emg3d.Model(
                grid, property_x=M.forward(sx), property_z=M.forward(sz),
                mapping=name), survey)
            g0 = emg3d.meshes.estimate_gridding_opts({}, emg3d.Model(
                grid, property_x=sx, property_z=sz, mapping='Conductivity'),
                survey)
            a = M.backward(np.array(g['properties']))
            b = np.array(g0['properties'])
            worst = max(worst, float(np.abs(a/b-1).max()))
        return worst > 1e-9, (f"real estimate_gridding_opts under Map{name} "
                              f"vs Conductivity: extracted conductivities "
                              f"differ by up to {worst:.2e} (relative)")
    if kind == 'validation':
        vals = cex.get('values') or [1.0, 1.0]
        grid = emg3d.TensorMesh([[1.], [1.], [1.]], (0, 0, 0))
        which = cex['which']

        def good(v):
            s = (1.0/v if v != 0 else float('inf')) \
                if (which.startswith('property_') and
                    name == 'Resistivity') else v
            return s > 0 and np.isfinite(s)
        with np.errstate(all='ignore'):
            kw = dict(mapping=name)
            kw[which] = vals[0]
            try:
                model = emg3d.Model(grid, **kw)
                st = 'ok'
                try:
                    setattr(model, which, vals[1])
                except ValueError:
                    st = 'raise-set'
            except ValueError:
                st = 'raise-init'
            want = 'raise-init' if not good(vals[0]) else (
                'raise-set' if not good(vals[1]) else 'ok')
        return st != want, (f"real Model({which}={vals[0]!r}, mapping={name})"
                            f" then assign {vals[1]!r}: {st}, expected "
                            f"{want}")
    return False, 'unknown kind'


def _dispatch(job):
    return globals()[job[0]](job[1])


def main(tier):
    shadow.load()
    run = Run(PID, tier, design_ref='DESIGN.md §6 C14')
    run.functions.update(shadow.func_lines(
        'emg3d/maps.py', ['MapConductivity', 'MapLgConductivity',
                          'MapLnConductivity', 'MapResistivity',
                          'MapLgResistivity', 'MapLnResistivity']))
    run.functions.update(shadow.func_lines(
        'emg3d/models.py', ['Model', 'VolumeModel']))
    run.functions.update(shadow.func_lines(
        'emg3d/meshes.py', ['estimate_gridding_opts']))
    run.extra['hashes'] = {k: v for k, v in shadow.hashes().items()
                           if k in ('emg3d/maps.py', 'emg3d/models.py')}
    jobs = [('case_map', n) for n in MAPS]
    anisos = ('iso', 'VTI', 'HTI', 'triaxial')
    for n in MAPS:
        for an in anisos:
            if tier == 'quick':
                combos = [(False, False), (True, True)]
            else:
                combos = [(False, False), (True, False), (False, True),
                          (True, True)]
            for e, mu in combos:
                jobs.append(('case_volume', (n, an, e, mu)))
    jobs += [('case_gridding_props', n) for n in MAPS]
    for n in ('Conductivity', 'Resistivity'):
        for w in ('property_x', 'property_y', 'property_z'):
            jobs.append(('case_validation', (n, w)))
    for w in ('mu_r', 'epsilon_r'):
        jobs.append(('case_validation', ('Resistivity', w)))
    for n in ('LgConductivity', 'LnConductivity', 'LgResistivity',
              'LnResistivity'):
        jobs.append(('case_validation', (n, 'property_x')))
    jobs.append(('case_validation', ('LgResistivity', 'property_z')))
    obs = pmap(_dispatch, jobs)
    run.add(obs)
    run.bounds = dict(
        values="all real sigma > 0 / mapped x (no bound)",
        volume_model_shape=(1, 1, 2),
        validation="one symbolic IEEE-754 double at construction and one on "
                   "assignment; maps Conductivity and Resistivity exactly "
                   "(fpDiv), the four log maps with an abstract IEEE "
                   "backward function (NaN/inf/zero ends, sign); "
                   "property_x/y/z, mu_r, epsilon_r")
    run.assumptions = [
        "exp, ln, log10, 10**x are uninterpreted functions constrained by: "
        "exp(ln y)=y (y>0), ln(exp x)=x, p10(lg y)=y (y>0), lg(p10 x)=x, "
        "exp>0, p10>0, ln(1/m)=-ln(m), lg(1/m)=-lg(m)",
        "np.log(10) is the float constant the code itself evaluates; the "
        "derivative oracle uses d p10(u) = LN10*p10(u)*du with that constant",
        "identical solver coefficients imply identical fields and data "
        "(the solver sees the model only through VolumeModel)",
    ]
    run.stubs = ["scipy.constants.mu_0 / epsilon_0 -> symbolic constants",
                 "Model / source field -> duck-typed carriers of symbolic "
                 "arrays for VolumeModel"]
    run.outside = ["floating-point accuracy of exp/log over twelve decades",
                   "IEEE-754 validation for the four logarithmic maps "
                   "(10**x is not encodable)"]
    run.explanation = (
        "The six Map* classes and VolumeModel are executed on z3 Real terms "
        "with transcendental functions as axiomatised uninterpreted "
        "functions; z3 decides the round trips, positivity, the chain-rule "
        "factor (against a symbolic differentiator) and equality of the "
        "solver coefficients with those of the plain conductivity model, for "
        "all values.  Model validation is explored path by path on symbolic "
        "IEEE-754 doubles: accepted <=> conductivity positive and finite.")
    for o in obs[:3]:
        run.sample(dict(group=o['group'], label=o['label'],
                        verdict=o['verdict']))
    return run.finish(replay)
