"""Checker-side finite-integration reference operator (the C02 oracle).

Written from the property statement only: curl^T M_face(zeta) curl on the
staggered tensor grid plus the four-cell edge average of eta, assembled from
cell widths alone by generic loops over faces.  It shares no code with
emg3d.core.  Works on floats and on symx scalars alike.
"""
import numpy as np

CYC = {0: (1, 2), 1: (2, 0), 2: (0, 1)}


def edge_shape(shape, d):
    """Shape of the d-directed edge array: cells in d, nodes elsewhere."""
    return tuple(n if k == d else n+1 for k, n in enumerate(shape))


def unit(d):
    e = [0, 0, 0]
    e[d] = 1
    return tuple(e)


def add(i, j, s=1):
    return tuple(a+s*b for a, b in zip(i, j))


def interior_edges(shape, d):
    """Indices of d-directed edges not tangential on the boundary."""
    d1, d2 = CYC[d]
    out = []
    for idx in np.ndindex(*edge_shape(shape, d)):
        if 1 <= idx[d1] <= shape[d1]-1 and 1 <= idx[d2] <= shape[d2]-1:
            out.append(idx)
    return out


def boundary_edges(shape, d):
    d1, d2 = CYC[d]
    out = []
    for idx in np.ndindex(*edge_shape(shape, d)):
        if not (1 <= idx[d1] <= shape[d1]-1 and 1 <= idx[d2] <= shape[d2]-1):
            out.append(idx)
    return out


def curl_rows(shape, h, d, fidx):
    """Row of the discrete curl for the face with normal d at fidx.

    fidx = (node index in d, cell index in d1, cell index in d2) arranged in
    (x,y,z) order.  Returns [(edge_dir, edge_idx, coefficient)].
    """
    d1, d2 = CYC[d]
    inv1 = 1/h[d1][fidx[d1]]
    inv2 = 1/h[d2][fidx[d2]]
    return [
        (d2, add(fidx, unit(d1)), inv1),
        (d2, fidx, -inv1),
        (d1, add(fidx, unit(d2)), -inv2),
        (d1, fidx, inv2),
    ]


def apply(h, eta, zeta, e, zero):
    """Reference A e on interior edges.

    h = [hx,hy,hz]; eta = [eta_x,eta_y,eta_z]; e = [ex,ey,ez];
    returns dict {(d, idx): value} for every interior edge.
    ``zero`` is the additive identity of the scalar type in use.
    """
    shape = tuple(len(x) for x in h)
    out = {}
    for d in range(3):
        for idx in interior_edges(shape, d):
            out[(d, idx)] = zero
    # curl^T M_f curl over interior faces
    for d in range(3):
        fshape = tuple(n+1 if k == d else n for k, n in enumerate(shape))
        for fidx in np.ndindex(*fshape):
            if not 1 <= fidx[d] <= shape[d]-1:
                continue            # boundary face: touches no interior edge
            rows = curl_rows(shape, h, d, fidx)
            circ = zero
            for (ed, eidx, c) in rows:
                circ = circ + c*e[ed][eidx]
            mf = (zeta[add(fidx, unit(d), -1)] + zeta[fidx])/2
            u = mf*circ
            for (ed, eidx, c) in rows:
                if (ed, eidx) in out:
                    out[(ed, eidx)] = out[(ed, eidx)] + c*u
    # edge mass: minus quarter of the sum of eta over the four cells
    for d in range(3):
        d1, d2 = CYC[d]
        for idx in interior_edges(shape, d):
            s = zero
            for a in (0, 1):
                for b in (0, 1):
                    cidx = add(add(idx, unit(d1), -a), unit(d2), -b)
                    s = s + eta[d][cidx]
            out[(d, idx)] = out[(d, idx)] - s*e[d][idx]/4
    return out


def apply_edge(h, eta, zeta, e, d, idx, zero):
    """(A e) at the single interior edge (d, idx) — same operator as apply."""
    shape = tuple(len(x) for x in h)
    d1, d2 = CYC[d]
    acc = zero
    # faces containing this edge: normal d2 (cells d, d1; node d2 = idx[d2])
    # at cell index idx[d1]-1 and idx[d1]; normal d1 likewise.
    for nd, od in ((d2, d1), (d1, d2)):
        for off in (0, 1):
            fidx = add(idx, unit(od), -off)
            if not (0 <= fidx[od] <= shape[od]-1):
                continue
            if not 1 <= fidx[nd] <= shape[nd]-1:
                continue
            rows = curl_rows(shape, h, nd, fidx)
            cme = None
            circ = zero
            for (ed, eidx, c) in rows:
                circ = circ + c*e[ed][eidx]
                if ed == d and eidx == idx:
                    cme = c
            mf = (zeta[add(fidx, unit(nd), -1)] + zeta[fidx])/2
            acc = acc + cme*(mf*circ)
    s = zero
    for a in (0, 1):
        for b in (0, 1):
            s = s + eta[d][add(add(idx, unit(d1), -a), unit(d2), -b)]
    return acc - s*e[d][idx]/4
