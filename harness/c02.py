"""C02 — matrix-free operator == assembled finite-integration operator.

Real code executed symbolically (shadow of /repo/emg3d): core.amat_x,
models.VolumeModel, solver.residual, the Krylov matvec closure in
solver.krylov.  Everything (widths, eta, zeta, fields) is a solver variable;
per grid shape the solver decides polynomial identities.
"""
import os
import time
import itertools
from fractions import Fraction

import numpy as np
import z3

import symx
from symx import Q, Ctx, set_ctx, sym_array, State, shadow
from . import fit
from .common import ob, Run, pmap, seed

PID = 'C02'


def _setup(shape, aliased='triaxial'):
    """Fresh context with fully symbolic grid, model and field."""
    c = set_ctx(Ctx(timeout_ms=60000))
    State.OBJECT_ALLOC = True
    h = [sym_array(f"h{'xyz'[d]}", shape[d], positive=True) for d in range(3)]
    eta_x = sym_array('eta_x', shape)
    eta_y = sym_array('eta_y', shape) if aliased in ('HTI', 'triaxial') \
        else eta_x
    eta_z = sym_array('eta_z', shape) if aliased in ('VTI', 'triaxial') \
        else eta_x
    zeta = sym_array('zeta', shape)
    return c, h, [eta_x, eta_y, eta_z], zeta


def _field(name, shape, pec=True):
    e = [sym_array(f"{name}{'xyz'[d]}", fit.edge_shape(shape, d))
         for d in range(3)]
    if pec:
        for d in range(3):
            for idx in fit.boundary_edges(shape, d):
                e[d][idx] = Q(Fraction(0))
    return e


def _zeros(shape):
    return [symx.symnp.zeros(fit.edge_shape(shape, d)) for d in range(3)]


def _cex_inputs(m, named):
    """Concrete (float) values of named symbolic arrays under model m."""
    out = {}
    for name, arrs in named.items():
        out[name] = [[float(symx.model_value(m, v)) if v is not None else 0.0
                      for v in np.asarray(a, dtype=object).ravel(order='F')]
                     for a in arrs]
    return out


def well_separated(c, h, extra=()):
    """Extra constraints asking z3 for a numerically robust witness."""
    cons = []
    for hd in h:
        for v in hd:
            cons += [v.t >= Fraction(1, 2), v.t <= 2]
    return cons + list(extra)


def case_operator(case):
    """Queries (i),(ii): kernel == oracle on interior edges; 0 on boundary."""
    shape, aniso = case
    E = shadow.load()
    c, h, eta, zeta = _setup(shape, aniso)
    e = _field('e', shape)
    r = _zeros(shape)
    t0 = time.time()
    E.core.amat_x(r[0], r[1], r[2], e[0], e[1], e[2], eta[0], eta[1], eta[2],
                  zeta, h[0], h[1], h[2])
    ref = fit.apply(h, eta, zeta, e, Q(Fraction(0)))
    build_s = time.time()-t0
    grp = f"operator shape={shape} aniso={aniso}"
    obs = []
    named = dict(h=h, eta=eta, zeta=[zeta], e=e)
    for (d, idx), want in ref.items():
        got = -r[d][idx]
        lbl = f"A e == oracle at e{'xyz'[d]}{list(idx)}"
        t1 = time.time()
        v, m = c.valid(symx.qt(got) == symx.qt(want), label=lbl)
        if v == 'cex':
            # ask for a well separated witness for the replay
            diff = symx.qt(got) - symx.qt(want)
            r2, m2 = c.check(z3.Or(diff >= 1, diff <= -1),
                             *well_separated(c, h), label=lbl+' (sep)')
            if r2 == 'sat':
                m = m2
            cex = dict(kind='operator', shape=list(shape), aniso=aniso,
                       edge=[d, list(idx)], inputs=_cex_inputs(m, named))
            obs.append(ob(lbl, 'cex', group=grp, seconds=time.time()-t1,
                          cex=cex, key=f"amat_x!=oracle e{'xyz'[d]} "
                          f"shape={shape} aniso={aniso}"))
        else:
            obs.append(ob(lbl, v, group=grp, seconds=time.time()-t1))
    # (ii) boundary edges: kernel output is exactly zero when PEC holds
    nb = 0
    t1 = time.time()
    bad = []
    for d in range(3):
        for idx in fit.boundary_edges(shape, d):
            nb += 1
            val = r[d][idx]
            if isinstance(val, Q) and val.c is not None and val.c == 0:
                continue
            v, m = c.valid(symx.qt(val) == 0, label='boundary')
            if v != 'held':
                bad.append((d, idx, v, m))
    if bad:
        d, idx, v, m = bad[0]
        cex = None
        if m is not None:
            cex = dict(kind='boundary', shape=list(shape), aniso=aniso,
                       edge=[d, list(idx)], inputs=_cex_inputs(m, named))
        obs.append(ob(f"A e == 0 on all {nb} boundary edges (PEC field)",
                      'cex' if v == 'cex' else v, group=grp,
                      seconds=time.time()-t1, cex=cex,
                      key=f"amat_x boundary nonzero shape={shape}"))
    else:
        obs.append(ob(f"A e == 0 on all {nb} boundary edges (PEC field)",
                      'held', group=grp, seconds=time.time()-t1))
    # reachability twin: the obligation is not vacuous (side conditions sat,
    # and some interior output is not identically zero)
    if shape == (2, 3, 2) or shape == (3, 3, 3):
        # keep the SMT-LIB2 text of two discharged obligations for the
        # cvc5 cross-check (validation, not the deciding step)
        c.sample_smt2 = []
        k0 = list(ref.items())[:2]
        for (d0, i0), w0 in k0:
            c.valid(symx.qt(-r[d0][i0]) == symx.qt(w0),
                    label=f"sample A e == oracle e{'xyz'[d0]}{list(i0)} "
                          f"shape={shape}")
        obs.append(ob("smt2 samples", 'held', group=grp, cls='sample',
                      nontrivial=False, note='', cex=None,
                      key=None))
        obs[-1]['smt2'] = list(c.sample_smt2)
        c.sample_smt2 = None
    (d, idx), want = next(iter(ref.items()))
    r3, _ = c.check(symx.qt(want) != 0, label='twin')
    obs.append(ob("twin: side conditions satisfiable and output nonzero",
                  'twin_sat' if r3 == 'sat' else 'twin_unsat', group=grp,
                  cls='NRA-small'))
    obs[0]['note'] = f"build {build_s:.2f}s, {len(c.recips)} reciprocals"
    return obs


def case_symmetry(case):
    """(iii) <u, A v> == <A u, v> for independent PEC fields u, v."""
    shape, aniso = case
    E = shadow.load()
    c, h, eta, zeta = _setup(shape, aniso)
    u = _field('u', shape)
    v = _field('v', shape)
    au, av = _zeros(shape), _zeros(shape)
    E.core.amat_x(*au, *u, *eta, zeta, *h)
    E.core.amat_x(*av, *v, *eta, zeta, *h)
    lhs = Q(Fraction(0))
    rhs = Q(Fraction(0))
    for d in range(3):
        for idx in fit.interior_edges(shape, d):
            lhs = lhs + u[d][idx]*(-av[d][idx])
            rhs = rhs + (-au[d][idx])*v[d][idx]
    grp = f"symmetry shape={shape} aniso={aniso}"
    t1 = time.time()
    vd, m = c.valid(symx.qt(lhs) == symx.qt(rhs), label='symmetry')
    cex = None
    if vd == 'cex':
        cex = dict(kind='symmetry', shape=list(shape), aniso=aniso,
                   inputs=_cex_inputs(m, dict(h=h, eta=eta, zeta=[zeta],
                                              u=u, v=v)))
    return [ob("<u,Av> == <Au,v> (bilinear identity, all interior edges)",
               vd, group=grp, seconds=time.time()-t1, cex=cex,
               key=f"amat_x not symmetric shape={shape} aniso={aniso}")]


def case_gradient(case):
    """(iv) curl-curl part annihilates discrete gradients."""
    shape, _ = case
    E = shadow.load()
    c, h, eta, zeta = _setup(shape, 'iso')
    zero = symx.symnp.zeros(shape)
    nshape = tuple(n+1 for n in shape)
    phi = sym_array('phi', nshape)
    for idx in np.ndindex(*nshape):
        if any(i == 0 or i == n for i, n in zip(idx, shape)):
            phi[idx] = Q(Fraction(0))
    e = []
    for d in range(3):
        a = symx.symnp.zeros(fit.edge_shape(shape, d))
        for idx in np.ndindex(*a.shape):
            a[idx] = (phi[fit.add(idx, fit.unit(d))]-phi[idx])/h[d][idx[d]]
        e.append(a)
    r = _zeros(shape)
    E.core.amat_x(*r, *e, zero, zero, zero, zeta, *h)
    grp = f"gradient shape={shape}"
    obs = []
    t1 = time.time()
    conj = []
    for d in range(3):
        for idx in fit.interior_edges(shape, d):
            conj.append(symx.qt(r[d][idx]) == 0)
    vd, m = c.valid(z3.And(*conj), label='gradient')
    cex = None
    if vd == 'cex':
        cex = dict(kind='gradient', shape=list(shape),
                   inputs=_cex_inputs(m, dict(h=h, zeta=[zeta], phi=[phi])))
    obs.append(ob(f"curl-curl(grad phi) == 0 on {len(conj)} interior edges",
                  vd, group=grp, seconds=time.time()-t1, cex=cex,
                  key=f"curl-curl does not annihilate gradients "
                  f"shape={shape}"))
    return obs


class _Duck:
    pass


def case_volume_model(case):
    """(v) VolumeModel: eta = -s mu0 V (sigma + s eps0 eps_r), zeta = V/mu_r
    and anisotropy aliasing.  Laplace domain: s is a real symbol (and the
    field's `frequency` is s); frequency domain: s = i*2*pi*f as a complex
    pair with symbolic f."""
    shape, aniso, with_eps, with_mu, domain = case
    E = shadow.load()
    c = set_ctx(Ctx())
    State.OBJECT_ALLOC = True
    h = [sym_array(f"h{'xyz'[d]}", shape[d], positive=True) for d in range(3)]
    mu0 = Q.var('mu_0')
    eps0 = Q.var('eps_0')
    sfield = _Duck()
    if domain == 'laplace':
        s = Q.var('s')
        c.assume(symx.B(s.t > 0))
        sfield._frequency = -s
        sfield.frequency = s
    else:
        f = Q.var('f')
        c.assume(symx.B(f.t > 0))
        s = symx.Qc(Q(Fraction(0)), Q(2*np.pi)*f)
        sfield._frequency = f
        sfield.frequency = f
    sfield.sval = s
    sfield.smu0 = s*mu0
    sig = {'x': sym_array('sig_x', shape, positive=True)}
    sig['y'] = sym_array('sig_y', shape, positive=True) \
        if aniso in ('HTI', 'triaxial') else None
    sig['z'] = sym_array('sig_z', shape, positive=True) \
        if aniso in ('VTI', 'triaxial') else None
    eps = sym_array('eps_r', shape, positive=True) if with_eps else None
    mur = sym_array('mu_r', shape, positive=True) if with_mu else None
    model = _Duck()
    model.case = aniso if aniso != 'iso' else 'isotropic'
    # a real BaseMesh (the grid type the solver hands around), so that a
    # VolumeModel that keeps/mutates the caller's grid is observable
    model.grid = E.meshes.BaseMesh(h, (0., 0., 0.))
    model.shape = tuple(shape)
    model._properties = ['property_x', 'property_y', 'property_z',
                         'mu_r', 'epsilon_r']
    model.property_x, model.property_y, model.property_z = \
        sig['x'], sig['y'], sig['z']
    model.mu_r, model.epsilon_r = mur, eps
    model.map = E.maps.MapConductivity()
    # scipy.constants -> symbolic constants
    real_sp = E.models.sp
    E.models.sp = symx.proxies._Namespace(real_sp, dict(
        constants=symx.proxies._Namespace(real_sp.constants,
                                          dict(epsilon_0=eps0, mu_0=mu0))))
    try:
        vm = E.models.VolumeModel(model, sfield)
        # second construction from the SAME model/grid objects: must not
        # depend on the first (no state kept in or written to the inputs)
        vm_again = E.models.VolumeModel(model, sfield)
    finally:
        E.models.sp = real_sp
    grp = f"VolumeModel shape={shape} aniso={aniso} eps={with_eps} " \
          f"mu={with_mu} domain={domain}"

    def eq(a, b):
        a, b = symx.Qc._co(a), symx.Qc._co(b)
        return z3.And(symx.qt(a.re) == symx.qt(b.re),
                      symx.qt(a.im) == symx.qt(b.im))
    conj = []
    for idx in np.ndindex(*shape):
        V = h[0][idx[0]]*h[1][idx[1]]*h[2][idx[2]]
        for k, d in enumerate('xyz'):
            sg = sig[d] if sig[d] is not None else sig['x']
            want = -s*mu0*V*(sg[idx]+(s*eps0*eps[idx] if with_eps else 0))
            got = getattr(vm, 'eta_'+d)[idx]
            conj.append(eq(got, want))
            conj.append(eq(getattr(vm_again, 'eta_'+d)[idx], want))
        wz = V/mur[idx] if with_mu else V
        conj.append(eq(vm.zeta[idx], wz))
        conj.append(eq(vm_again.zeta[idx], wz))
    t1 = time.time()
    vd, m = c.valid(z3.And(*conj), label='volume model')
    obs = [ob(f"eta_xyz, zeta formulas on {int(np.prod(shape))} cells",
              vd, group=grp, seconds=time.time()-t1,
              cex=(dict(kind='volume_model', shape=list(shape), aniso=aniso,
                        eps=with_eps, mu=with_mu, domain=domain)
                   if vd == 'cex' else None),
              key=f"VolumeModel formula aniso={aniso} eps={with_eps} "
              f"mu={with_mu} domain={domain}")]
    # aliasing is by identity, not by value
    alias_ok = True
    if aniso in ('iso', 'VTI'):
        alias_ok &= vm.eta_y is vm.eta_x
    if aniso in ('iso', 'HTI'):
        alias_ok &= vm.eta_z is vm.eta_x
    if aniso in ('HTI', 'triaxial'):
        alias_ok &= vm.eta_y is not vm.eta_x
    if aniso in ('VTI', 'triaxial'):
        alias_ok &= vm.eta_z is not vm.eta_x
    obs.append(ob("anisotropy aliasing (eta_y/eta_z are eta_x exactly where "
                  "the case says so)", 'held' if alias_ok else 'cex',
                  cls='concrete', group=grp, nontrivial=False,
                  key=f"VolumeModel aliasing aniso={aniso}",
                  cex=(dict(kind='volume_model', shape=list(shape),
                            aniso=aniso, eps=with_eps, mu=with_mu,
                            domain=domain) if not alias_ok else None)))
    return obs


def case_solve_state(case):
    """solve() hands the kernels the coefficients of the CURRENT model and
    source field: a history on one Model object (in-place index assignment,
    setter assignment, Laplace/frequency domain of equal |f|, mu_r/epsilon_r
    added later) is compared, call by call, with a fresh VolumeModel of a
    freshly constructed Model holding the same values."""
    aniso = case[-1]
    E = shadow.load()
    c = set_ctx(Ctx())
    State.OBJECT_ALLOC = True
    grp = f"solve() uses the current model's coefficients ({aniso})"
    shape = (3, 2, 2)
    grid = E.meshes.TensorMesh([np.array([1., 2., 1.]), np.array([2., 1.]),
                                np.array([1., 3.])], (0., 0., 0.))
    names = ['property_x'] + (['property_y'] if aniso in (
        'HTI', 'triaxial') else []) + (['property_z'] if aniso in (
            'VTI', 'triaxial') else [])
    cur = {n: sym_array('a'+n[-1], shape, positive=True) for n in names}
    model = E.models.Model(grid, mapping='Conductivity',
                           **{n: v.copy() for n, v in cur.items()})
    rec = []
    saved = (E.solver.multigrid, E.solver.krylov, E.solver.residual)

    def snap(vm):
        return {k: np.array(getattr(vm, k), dtype=object, copy=True)
                for k in ('eta_x', 'eta_y', 'eta_z', 'zeta')}

    def fake_mg(vmodel, sfield, efield, var, **kw):
        rec.append(snap(vmodel))
        var.exit_message = 'CONVERGED'
        var.l2 = 0.0
    E.solver.multigrid = fake_mg
    E.solver.krylov = fake_mg
    E.solver.residual = lambda *a, **k: 1.0

    def sfield(freq):
        f = E.fields.Field(grid, frequency=freq)
        f.fx[1, 1, 1] = 1.0
        return f
    obs = []
    steps = []
    try:
        def call(label, freq, **kw):
            n0 = len(rec)
            E.solver.solve(model, sfield(freq), sslsolver=False,
                           semicoarsening=False, linerelaxation=False,
                           verb=0, **kw)
            # oracle: fresh Model object with the same current values
            extra = {}
            if model.mu_r is not None:
                extra['mu_r'] = np.array(model.mu_r, dtype=object,
                                         copy=True).view(symx.SymArray)
            if model.epsilon_r is not None:
                extra['epsilon_r'] = np.array(
                    model.epsilon_r, dtype=object, copy=True).view(
                        symx.SymArray)
            fresh = E.models.Model(grid, mapping='Conductivity', **{
                n: np.array(getattr(model, n), dtype=object,
                            copy=True).view(symx.SymArray)
                for n in names}, **extra)
            want = snap(E.models.VolumeModel(fresh, sfield(freq)))
            steps.append((label, rec[n0] if len(rec) > n0 else None, want))
        call('first solve, frequency domain f=1', 1.0)
        b = Q.var('b')
        c.assume(symx.B(b.t > 0))
        model.property_x[1, 1, 1] = b                     # index assignment
        call('after in-place index assignment', 1.0)
        newx = sym_array('n', shape, positive=True)
        model.property_x = newx                           # setter
        call('after setter assignment', 1.0)
        call('Laplace domain s=1 (same |f|)', -1.0)
        call('frequency domain again', 1.0)
        if len(names) > 1:
            getattr(model, names[-1])[0, 0, 1] = b
            call(f'after index assignment to {names[-1]}', 1.0)
        call('another frequency f=2', 2.0)
        model.property_x[2, 1, 0] = b
        call('frequency f=1 again after a change made while f=2 was '
             'current', 1.0)
        for label, got, want in steps:
            t1 = time.time()
            bad = got is None
            if not bad:
                for k in want:
                    for a_, b_ in zip(got[k].flat, want[k].flat):
                        a_, b_ = symx.Qc._co(a_), symx.Qc._co(b_)
                        if symx.qt(a_.re).eq(symx.qt(b_.re)) and \
                                symx.qt(a_.im).eq(symx.qt(b_.im)):
                            continue
                        if c.valid(z3.And(
                                symx.qt(a_.re) == symx.qt(b_.re),
                                symx.qt(a_.im) == symx.qt(b_.im)),
                                label='state')[0] != 'held':
                            bad = True
                            break
                    if bad:
                        break
            obs.append(ob(
                f"{label}: eta_x/y/z and zeta handed to the solver == "
                f"VolumeModel of a fresh Model with the current values",
                'cex' if bad else 'held', group=grp, cls='LIN',
                seconds=time.time()-t1,
                key="solve() uses stale volume-averaged coefficients "
                    "(history on one Model object)",
                cex=dict(kind='solve_state', aniso=aniso, step=label)
                if bad else None))
    finally:
        E.solver.multigrid, E.solver.krylov, E.solver.residual = saved
    if c.stats['forks']:
        return [ob("harness: unexpected fork", 'error', group=grp)]
    return obs


def _replay_solve_state(cex):
    """Real solves on one Model object through the same history vs fresh
    Model objects."""
    import emg3d
    rng = np.random.default_rng(4)
    grid = emg3d.TensorMesh([np.array([1., 2., 1., 2.])*50]*3, (0, 0, 0))
    shape = grid.shape_cells
    aniso = cex['aniso']
    names = ['property_x'] + (['property_y'] if aniso in (
        'HTI', 'triaxial') else []) + (['property_z'] if aniso in (
            'VTI', 'triaxial') else [])
    model = emg3d.Model(grid, mapping='Conductivity', **{
        n: rng.uniform(.5, 2, shape) for n in names})
    src = (110., 120., 130., 20., 10.)
    so = dict(sslsolver=False, semicoarsening=False, linerelaxation=False,
              verb=0, tol=1e-10, maxit=200)
    msgs = []

    def call(label, freq):
        sf = emg3d.get_source_field(grid, src, freq)
        e = emg3d.solve(model, sf, **so)
        fresh = emg3d.Model(grid, mapping='Conductivity', **{
            n: getattr(model, n).copy() for n in names})
        e2 = emg3d.solve(fresh, emg3d.get_source_field(grid, src, freq),
                         **so)
        d = np.abs(e.field-e2.field).max()/np.abs(e2.field).max()
        if d > 1e-6:
            msgs.append(f"{label}: field differs from a fresh model's by "
                        f"{d:.2e}")
    try:
        call('first', 1.0)
        model.property_x[1, 1, 1] = 7.5
        call('after in-place index assignment', 1.0)
        model.property_x = rng.uniform(.5, 2, shape)
        call('after setter assignment', 1.0)
        call('Laplace', -1.0)
        call('frequency again', 1.0)
        if len(names) > 1:
            getattr(model, names[-1])[0, 0, 1] = 9.0
            call('after index assignment (anisotropy)', 1.0)
        call('f=2', 2.0)
        model.property_x[2, 1, 0] = 11.0
        call('f=1 after change during f=2', 1.0)
    except Exception as e:      # noqa
        msgs.append(f"raised {e!r}"[:300])
    return bool(msgs), ("real solve() history on one Model object: " +
                        ('; '.join(msgs[:3]) or 'always equal to a fresh '
                         'model'))


def case_wrappers(case):
    """residual() and the Krylov matvec are sign-correct thin wrappers."""
    shape = case
    E = shadow.load()
    c = set_ctx(Ctx())
    State.OBJECT_ALLOC = True
    rng = np.random.default_rng(7)
    hc = [np.array([Fraction(int(v), 4) for v in rng.integers(2, 9, n)],
                   dtype=object) for n in shape]
    hq = [np.array([Q(v) for v in hd], dtype=object).view(symx.SymArray)
          for hd in hc]
    hf = [np.array([float(v) for v in hd]) for hd in hc]
    eta = [sym_array('eta_'+d, shape) for d in 'xyz']
    zeta = sym_array('zeta', shape)
    e = _field('e', shape)
    s = _field('s', shape, pec=False)
    grid = E.meshes.BaseMesh(hf, (0., 0., 0.))
    grid.h = hq
    model = _Duck()
    model.grid = grid
    model.eta_x, model.eta_y, model.eta_z = eta
    model.zeta = zeta
    model.case = 'triaxial'

    def mkfield(parts):
        f = E.fields.Field.__new__(E.fields.Field)
        f.grid = grid
        f._frequency = 1.0
        f.electric = True
        f._field = np.concatenate(
            [np.asarray(p, dtype=object).ravel(order='F') for p in parts]
        ).view(symx.SymArray)
        return f
    ef, sf = mkfield(e), mkfield(s)
    # Field.copy() goes through TensorMesh(to_dict); keep it (concrete h).
    grid_h_float = _Duck()
    obs = []
    grp = f"wrappers shape={shape}"
    ref = fit.apply(hq, eta, zeta, e, Q(Fraction(0)))
    t1 = time.time()
    try:
        # Field.to_dict builds a TensorMesh from grid.h -> needs floats
        grid.h = hf
        sf_copy = sf.copy()
        grid.h = hq
        sf.copy = lambda: sf_copy
        sf_copy.grid = grid
        res = E.solver.residual(model, sf, ef)
        conj = []
        parts = [res.fx, res.fy, res.fz]
        for (d, idx), want in ref.items():
            conj.append(symx.qt(parts[d][idx]) ==
                        symx.qt(s[d][idx]-want))
        vd, m = c.valid(z3.And(*conj), label='residual wrapper')
        obs.append(ob("solver.residual == s - A_oracle e on interior edges",
                      vd, group=grp, seconds=time.time()-t1,
                      key="solver.residual is not s - A e",
                      cex=(dict(kind='wrapper_residual', shape=list(shape))
                           if vd == 'cex' else None)))
    except Exception as ex:   # noqa
        obs.append(ob("solver.residual wrapper", 'error', group=grp,
                      note=repr(ex)))
    # Krylov matvec: capture A from a stubbed scipy solver
    captured = {}

    def fake_solver(A=None, b=None, x0=None, **kw):
        captured['A'] = A
        return x0, 0

    class FakeLinOp:
        def __init__(self, shape=None, dtype=None, matvec=None):
            self.matvec = matvec
    real_sp = E.solver.sp
    E.solver.sp = symx.proxies._Namespace(real_sp, dict(
        sparse=symx.proxies._Namespace(real_sp.sparse, dict(
            linalg=symx.proxies._Namespace(real_sp.sparse.linalg, dict(
                bicgstab=fake_solver, LinearOperator=FakeLinOp))))))
    try:
        var = _Duck()
        var.sslsolver = 'bicgstab'
        var.cycle = None
        var.tol = 1e-6
        var.ssl_maxit = 1
        var.exit_message = ''
        var.verb = 0
        var.cprint = lambda *a, **k: None
        t1 = time.time()
        E.solver.krylov(model, sf, ef, var)
        Ax = captured['A'].matvec(ef.field)
        got = mkfield([np.zeros(0)])
        got._field = np.asarray(Ax, dtype=object).view(symx.SymArray)
        parts = [got.fx, got.fy, got.fz]
        conj = [symx.qt(parts[d][idx]) == symx.qt(want)
                for (d, idx), want in ref.items()]
        vd, m = c.valid(z3.And(*conj), label='krylov matvec')
        obs.append(ob("krylov amatvec(x) == A_oracle x on interior edges",
                      vd, group=grp, seconds=time.time()-t1,
                      key="krylov matvec is not A",
                      cex=(dict(kind='wrapper_matvec', shape=list(shape))
                           if vd == 'cex' else None)))
    except Exception as ex:   # noqa
        import traceback
        obs.append(ob("krylov matvec wrapper", 'error', group=grp,
                      note=repr(ex)+traceback.format_exc()[-800:]))
    finally:
        E.solver.sp = real_sp
    return obs


# --------------------------------------------------------------------------
def jit_vs_source(shapes, n=3):
    """Validation 5.4(b): compiled kernel == python source to rounding."""
    import emg3d
    rng = np.random.default_rng(seed()+11)
    worst = 0.0
    for shape in shapes:
        for _ in range(n):
            h = [rng.uniform(.5, 2, k) for k in shape]
            eta = [rng.normal(size=shape)+1j*rng.normal(size=shape)
                   for _ in range(3)]
            zeta = rng.uniform(.5, 2, shape)
            e = [rng.normal(size=fit.edge_shape(shape, d)) +
                 1j*rng.normal(size=fit.edge_shape(shape, d))
                 for d in range(3)]
            r1 = [np.zeros(fit.edge_shape(shape, d), dtype=complex)
                  for d in range(3)]
            r2 = [np.zeros(fit.edge_shape(shape, d), dtype=complex)
                  for d in range(3)]
            emg3d.core.amat_x(*r1, *e, *eta, zeta, *h)
            emg3d.core.amat_x.py_func(*r2, *e, *eta, zeta, *h)
            sc = max(np.abs(x).max() for x in r2)
            worst = max(worst, max(np.abs(a-b).max() for a, b in
                                   zip(r1, r2))/sc)
    return worst


def replay(cex):
    """Replay a counterexample against the real (jitted) emg3d."""
    import emg3d
    kind = cex['kind']
    if kind == 'volume_model':
        return _replay_volume_model(cex)
    if kind == 'solve_state':
        return _replay_solve_state(cex)
    if kind not in ('operator', 'boundary', 'symmetry', 'gradient'):
        return True, f"{kind}: structural counterexample (no numeric replay)"
    shape = tuple(cex['shape'])
    inp = cex['inputs']
    h = [np.array(x) for x in inp['h']]
    zeta = np.array(inp['zeta'][0]).reshape(shape, order='F')

    def fld(key):
        return [np.array(inp[key][d]).reshape(fit.edge_shape(shape, d),
                                              order='F') for d in range(3)]
    if kind in ('operator', 'boundary'):
        eta = [np.array(x).reshape(shape, order='F') for x in inp['eta']]
        if len(eta) < 3:
            eta = eta*3
        e = fld('e')
        r = [np.zeros_like(x) for x in e]
        emg3d.core.amat_x(*r, *e, *eta, zeta, *h)
        ref = fit.apply(h, eta, zeta, e, 0.0)
        d, idx = cex['edge'][0], tuple(cex['edge'][1])
        if kind == 'boundary':
            got, want = r[d][idx], 0.0
        else:
            got, want = -r[d][idx], ref[(d, idx)]
        scale = max(1.0, max(np.abs(x).max() for x in r))
        diff = abs(got-want)
        return diff > 1e-9*scale, (
            f"real amat_x at e{'xyz'[d]}{list(idx)} = {got!r}, "
            f"finite-integration operator = {want!r}")
    if kind == 'symmetry':
        eta = [np.array(x).reshape(shape, order='F') for x in inp['eta']]
        u, v = fld('u'), fld('v')
        au = [np.zeros_like(x) for x in u]
        av = [np.zeros_like(x) for x in v]
        emg3d.core.amat_x(*au, *u, *eta, zeta, *h)
        emg3d.core.amat_x(*av, *v, *eta, zeta, *h)
        lhs = sum((u[d]*-av[d]).sum() for d in range(3))
        rhs = sum((-au[d]*v[d]).sum() for d in range(3))
        sc = max(1.0, abs(lhs), abs(rhs))
        return abs(lhs-rhs) > 1e-9*sc, f"<u,Av>={lhs!r} <Au,v>={rhs!r}"
    if kind == 'gradient':
        nshape = tuple(n+1 for n in shape)
        phi = np.array(inp['phi'][0]).reshape(nshape, order='F')
        e = [np.diff(phi, axis=d)/h[d].reshape(
            [-1 if k == d else 1 for k in range(3)]) for d in range(3)]
        r = [np.zeros_like(x) for x in e]
        z = np.zeros(shape)
        emg3d.core.amat_x(*r, *e, z, z, z, zeta, *h)
        worst = max(abs(r[d][idx]) for d in range(3)
                    for idx in fit.interior_edges(shape, d))
        sc = max(1.0, max(np.abs(x).max() for x in e))
        return worst > 1e-9*sc, f"max |curl-curl grad phi| = {worst!r}"


def _replay_volume_model(cex):
    import emg3d
    from scipy.constants import mu_0, epsilon_0
    shape = tuple(cex['shape'])
    rng = np.random.default_rng(2)
    h = [rng.uniform(1, 3, n) for n in shape]
    grid = emg3d.TensorMesh(h, (0, 0, 0))
    an = cex['aniso']
    kw = dict(property_x=rng.uniform(.5, 2, shape), mapping='Conductivity')
    if an in ('HTI', 'triaxial'):
        kw['property_y'] = rng.uniform(.5, 2, shape)
    if an in ('VTI', 'triaxial'):
        kw['property_z'] = rng.uniform(.5, 2, shape)
    if cex['eps']:
        kw['epsilon_r'] = rng.uniform(1, 9, shape)*1e5
    if cex['mu']:
        kw['mu_r'] = rng.uniform(1, 3, shape)
    model = emg3d.Model(grid, **kw)
    freq = -7.5e3 if cex['domain'] == 'laplace' else 2.5e6
    sfield = emg3d.Field(grid, frequency=freq)
    vm = emg3d.models.VolumeModel(model, sfield)
    # and a second time from one BaseMesh-based model object
    bmodel = emg3d.Model(emg3d.meshes.BaseMesh(h, (0, 0, 0)), **kw)
    emg3d.models.VolumeModel(bmodel, sfield)
    vm2 = emg3d.models.VolumeModel(bmodel, sfield)
    s = 7.5e3 if cex['domain'] == 'laplace' else 2j*np.pi*2.5e6
    V = (h[0][:, None, None]*h[1][None, :, None]*h[2][None, None, :])
    worst = 0.0
    for d in 'xyz':
        sg = kw.get('property_'+d, kw['property_x'])
        want = -s*mu_0*V*(sg + (s*epsilon_0*kw['epsilon_r'] if cex['eps']
                                else 0))
        for v_ in (vm, vm2):
            got = getattr(v_, 'eta_'+d)
            worst = max(worst, float(np.abs(got-want).max() /
                                     np.abs(want).max()))
    wz = V/kw['mu_r'] if cex['mu'] else V
    for v_ in (vm, vm2):
        worst = max(worst, float(np.abs(v_.zeta-wz).max()/np.abs(wz).max()))
    return worst > 1e-9, (f"real VolumeModel ({an}, eps_r={cex['eps']}, "
                          f"mu_r={cex['mu']}, {cex['domain']} domain) vs "
                          f"-s mu0 V (sigma + s eps0 eps_r), V/mu_r: max "
                          f"rel. diff {worst:.3e}")


def main(tier):
    E = shadow.load()
    run = Run(PID, tier, design_ref='DESIGN.md §6 C02')
    run.functions = {}
    run.functions.update(shadow.func_lines('emg3d/core.py', ['amat_x']))
    run.functions.update(shadow.func_lines('emg3d/models.py',
                                           ['VolumeModel']))
    run.functions.update(shadow.func_lines('emg3d/solver.py',
                                           ['residual', 'krylov']))
    run.extra['hashes'] = {k: v for k, v in shadow.hashes().items()
                           if k in ('emg3d/core.py', 'emg3d/models.py',
                                    'emg3d/solver.py')}
    if tier == 'quick':
        rng_n = (2, 3, 4)
        sym_n = (2, 3)
    else:
        rng_n = (2, 3, 4, 5, 6)
        sym_n = (2, 3, 4)
    shapes = list(itertools.product(rng_n, repeat=3))
    if tier != 'quick':
        shapes += [(8, 2, 3), (2, 8, 3), (3, 2, 8), (7, 7, 2)]
    cases_op = [(s, 'triaxial') for s in shapes]
    # the three aliasing cases: same kernel with arrays identified
    alias_shapes = [(3, 3, 3), (2, 3, 4)] if tier == 'quick' else \
        [(3, 3, 3), (2, 3, 4), (4, 4, 4), (4, 2, 3)]
    cases_op += [(s, a) for s in alias_shapes for a in ('iso', 'VTI', 'HTI')]
    sym_shapes = list(itertools.product(sym_n, repeat=3))
    cases_sym = [(s, 'triaxial') for s in sym_shapes]
    cases_grad = [(s, 'iso') for s in sym_shapes]
    vm_shapes = [(2, 2, 2), (2, 3, 2)]
    cases_vm = [(s, a, e, m, dom) for s in vm_shapes
                for a in ('iso', 'VTI', 'HTI', 'triaxial')
                for e in (False, True) for m in (False, True)
                for dom in ('laplace', 'frequency')]
    cases_wr = [(3, 3, 3), (2, 3, 4)]

    jobs = ([(case_operator, x) for x in cases_op] +
            [(case_symmetry, x) for x in cases_sym] +
            [(case_gradient, x) for x in cases_grad] +
            [(case_volume_model, x) for x in cases_vm] +
            [(case_wrappers, x) for x in cases_wr] +
            [(case_solve_state, ((9, 9, 9), a)) for a in ('iso', 'VTI',
                                                          'triaxial')])
    # biggest first
    jobs.sort(key=lambda j: -int(np.prod(j[1][0] if isinstance(
        j[1][0], tuple) else j[1])))
    obs = pmap(_dispatch, jobs)
    samples = []
    for o in obs:
        if o.get('smt2'):
            samples.extend(o.pop('smt2'))
    obs = [o for o in obs if o['cls'] != 'sample']
    run.add(obs)
    from .common import crosscheck_cvc5
    t0 = time.time()
    xc = crosscheck_cvc5(samples[:4])
    run.validation.append(dict(
        what="cvc5 1.0.3 second opinion on SMT-LIB2 exports of discharged "
             "obligations (z3: unsat)", results=xc,
        agree=all(x['cvc5'] == 'unsat' for x in xc),
        seconds=round(time.time()-t0, 2)))
    if any(x['cvc5'] == 'sat' for x in xc):
        run.error("cvc5 disagrees with z3 on a discharged obligation")

    t0 = time.time()
    worst = jit_vs_source([(2, 2, 2), (3, 4, 2), (5, 4, 3)])
    run.validation.append(dict(
        what="compiled amat_x vs amat_x.py_func on random complex inputs",
        max_rel_diff=worst, ok=bool(worst < 1e-12),
        seconds=round(time.time()-t0, 2)))
    if not worst < 1e-12:
        run.error(f"jit kernel deviates from python source: {worst}")

    # the repository's own kernel tests, run against the shadow package on
    # their concrete inputs: the symx proxies must be invisible (DESIGN 5.4a)
    t0 = time.time()
    import subprocess
    import sys as _sys
    from .common import VERIF
    tests = "test_core.py test_maps.py" if tier == 'quick' else \
        "test_core.py test_maps.py test_models.py"
    env = dict(os.environ, SHADOW_TESTS=tests,
               PYTHONPATH=VERIF+os.pathsep+os.environ.get('PYTHONPATH', ''))
    try:
        r = subprocess.run([_sys.executable, os.path.join(
            VERIF, 'tools', 'validate_shadow.py')], env=env,
            capture_output=True, text=True, timeout=3000)
        last = (r.stdout.strip().splitlines() or ['?'])[-1]
        ok = r.returncode == 0
    except Exception as e:     # noqa
        last, ok = repr(e), False
    run.validation.append(dict(
        what=f"repository tests ({tests}) run against the shadow package "
             f"(proxies on concrete inputs)", result=last, ok=ok,
        seconds=round(time.time()-t0, 2)))
    if not ok:
        run.error(f"repository tests fail on the shadow package: {last}")

    run.bounds = dict(
        operator_shapes=f"{len(shapes)} shapes, cells per direction in "
                        f"{rng_n}" + (" plus 6x2x3-type" if tier != 'quick'
                                      else ''),
        symmetry_gradient_shapes=f"all shapes with cells in {sym_n}",
        volume_model_shapes=vm_shapes,
        wrappers_shapes=cases_wr,
        symbolic="all widths (>0), all eta_x/eta_y/eta_z/zeta entries, all "
                 "field entries (PEC boundary entries fixed to 0), s, mu_0, "
                 "eps_0",
        solver_timeout_s=60)
    run.assumptions = [
        "exact field arithmetic: IEEE-754 rounding and fastmath "
        "re-association are outside the symbolic claim (bridged by the "
        "jit-vs-source validation and the replay threshold)",
        "a real variable stands for a complex quantity: identities are "
        "formal polynomial identities with rational coefficients",
        "cell widths > 0; denominators non-zero (reciprocal variables "
        "r*y == 1)",
        "no code path distinguishes indices beyond first/second/interior/"
        "last (shape bound argument, DESIGN §4)",
        "tangential boundary entries of the field are zero (PEC), as the "
        "property states",
    ]
    run.stubs = [
        "numba.njit -> identity (py_func semantics of the same source)",
        "scipy.sparse.linalg.bicgstab/LinearOperator -> capture stub (only "
        "to obtain the matvec closure of solver.krylov)",
        "scipy.constants.epsilon_0, mu_0 -> symbolic constants",
    ]
    run.outside = [
        "shapes with more than 6 (quick: 4) cells per direction (plus a few "
        "8-cell extremes)",
        "floating-point rounding / overflow", "numba code generation "
        "(validated numerically only)"]
    run.explanation = (
        "The source of emg3d.core.amat_x (and VolumeModel, solver.residual, "
        "the Krylov matvec closure) is executed on z3 Real terms; per grid "
        "shape z3 decides, for every interior edge, that the kernel output "
        "is identically the checker-assembled curl^T M_f curl + M_e operator "
        "for all widths, model parameters and PEC fields; plus symmetry, "
        "gradient null-space, boundary rows, VolumeModel formulas. unsat of "
        "the negation = held for all values within the shape bound.")
    for o in obs[:3]:
        run.sample(dict(group=o['group'], label=o['label'],
                        verdict=o['verdict'], seconds=o['seconds']))
    return run.finish(replay)


def _dispatch(job):
    fn, case = job
    return fn(case)
